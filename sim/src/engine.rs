//! Scenario generation per property and the typed union of replayable cases.

use crate::hist::{self, HistCase};
use crate::opts;
use crate::outcome::{Mon, Violation};
use crate::prng::{run_seed, Rng};
use crate::shrink;
use crate::sink::{self, SinkCase};
use crate::stream::{self, Api, ReceiverCase, StreamCase, TruncCase};
use crate::text::{self, TriviaMask};
use crate::val::{self, ValMask};
use crate::world::*;
use serde::{Deserialize, Serialize};

#[derive(Debug, Clone, PartialEq, Serialize, Deserialize)]
#[serde(tag = "engine", content = "case")]
pub enum AnyCase {
    Stream(StreamCase),
    Trunc(TruncCase),
    Receiver(ReceiverCase),
    Sink(SinkCase),
    Hist(HistCase),
}

pub struct Found {
    pub violation: Violation,
    pub case: AnyCase,
}

#[derive(Debug, Clone, Copy, PartialEq, Eq)]
pub enum Tier {
    Quick,
    Thorough,
}

impl AnyCase {
    pub fn check(&self, mon: &mut Mon) {
        match self {
            AnyCase::Stream(c) => {
                let mut refs = stream::Refs::new();
                stream::check_str_vs_slice(c, &mut refs, mon);
                stream::check_stream_case(c, &mut refs, mon);
            }
            AnyCase::Trunc(c) => stream::check_trunc_case(c, mon),
            AnyCase::Receiver(c) => stream::check_receiver_case(c, mon),
            AnyCase::Sink(c) => sink::check_sink_case(c, mon),
            AnyCase::Hist(c) => hist::check_hist_case(c, mon),
        }
    }

    pub fn candidates(&self) -> Vec<AnyCase> {
        match self {
            AnyCase::Stream(c) => stream_candidates(c).into_iter().map(AnyCase::Stream).collect(),
            AnyCase::Trunc(c) => trunc_candidates(c).into_iter().map(AnyCase::Trunc).collect(),
            AnyCase::Receiver(c) => receiver_candidates(c).into_iter().map(AnyCase::Receiver).collect(),
            AnyCase::Sink(c) => sink::candidates(c).into_iter().map(AnyCase::Sink).collect(),
            AnyCase::Hist(c) => hist::candidates(c).into_iter().map(AnyCase::Hist).collect(),
        }
    }

    /// Bytes of text the case makes the library look at (a cost proxy for the
    /// minimiser's work budget).
    pub fn weight(&self) -> u64 {
        (match self {
            AnyCase::Stream(c) => c.input.len(),
            AnyCase::Trunc(c) => c.text.len(),
            AnyCase::Receiver(c) => c.text.len(),
            AnyCase::Sink(_) => 256,
            AnyCase::Hist(c) => c.input().len(),
        }) as u64
    }

    pub fn engine_name(&self) -> &'static str {
        match self {
            AnyCase::Stream(_) => "E-STREAM",
            AnyCase::Trunc(_) => "E-STREAM/truncation",
            AnyCase::Receiver(_) => "E-STREAM/receiver",
            AnyCase::Sink(_) => "E-SINK",
            AnyCase::Hist(_) => "E-HIST",
        }
    }
}

pub fn opts_candidates(ix: u32) -> Vec<u32> {
    let f = opts::parse_fields(ix);
    // every candidate moves one step towards `Options::default()`
    let mut out = Vec::new();
    if ix != opts::PARSE_DEFAULT {
        out.push(opts::PARSE_DEFAULT);
    }
    let mut push = |g: opts::ParseFields| {
        let j = opts::parse_index(g);
        if j != ix {
            out.push(j);
        }
    };
    if f.kw != 4 {
        push(opts::ParseFields { kw: 4, ..f });
        for bit in [1u8, 2] {
            if f.kw & bit != 0 {
                push(opts::ParseFields { kw: f.kw & !bit, ..f });
            }
        }
    }
    if f.nil != 0 {
        push(opts::ParseFields { nil: 0, ..f });
    }
    if f.t != 0 {
        push(opts::ParseFields { t: 0, ..f });
    }
    if f.brackets != 0 {
        push(opts::ParseFields { brackets: 0, ..f });
    }
    if f.string != 0 {
        push(opts::ParseFields { string: 0, ..f });
    }
    if f.chr != 0 {
        push(opts::ParseFields { chr: 0, ..f });
    }
    if f.racket != 0 {
        push(opts::ParseFields { racket: 0, ..f });
    }
    if f.digit != 0 {
        push(opts::ParseFields { digit: 0, ..f });
    }
    out
}

pub fn read_plan_candidates(p: &ReadPlan) -> Vec<ReadPlan> {
    let mut out = Vec::new();
    if p.adapter != ReadAdapter::Direct {
        out.push(ReadPlan { adapter: ReadAdapter::Direct, ..p.clone() });
    }
    if !p.chunks.is_empty() {
        out.push(ReadPlan { chunks: vec![], ..p.clone() });
        if p.chunks != vec![1] {
            out.push(ReadPlan { chunks: vec![1], ..p.clone() });
        }
    }
    if p.interrupts != Interrupts::None {
        out.push(ReadPlan { interrupts: Interrupts::None, ..p.clone() });
    }
    for i in 0..p.faults.len() {
        let mut q = p.clone();
        q.faults.remove(i);
        out.push(q);
    }
    for i in 0..p.faults.len() {
        if p.faults[i].sticky {
            let mut q = p.clone();
            q.faults[i].sticky = false;
            out.push(q);
        }
        if p.faults[i].payload != Payload::Custom {
            let mut q = p.clone();
            q.faults[i].payload = Payload::Custom;
            out.push(q);
        }
        if let ReadFaultKind::Hard(k) = p.faults[i].kind {
            if k != Kind::Other {
                let mut q = p.clone();
                q.faults[i].kind = ReadFaultKind::Hard(Kind::Other);
                out.push(q);
            }
        }
    }
    out
}

fn stream_candidates(c: &StreamCase) -> Vec<StreamCase> {
    let mut out = Vec::new();
    for (s, e) in shrink::byte_removals(c.input.len()) {
        let mut d = c.clone();
        d.input = shrink::remove_range(&c.input, s, e);
        for f in d.plan.faults.iter_mut() {
            f.at = shrink::shift_offset(f.at, s, e);
        }
        if let ReadAdapter::Chain { split } = d.plan.adapter {
            d.plan.adapter = ReadAdapter::Chain { split: shrink::shift_offset(split, s, e) };
        }
        out.push(d);
    }
    for p in read_plan_candidates(&c.plan) {
        out.push(StreamCase { plan: p, ..c.clone() });
    }
    if c.api != Api::Value {
        out.push(StreamCase { api: Api::Value, ..c.clone() });
    }
    if !c.api.single() && c.api != Api::DrainValue {
        out.push(StreamCase { api: Api::DrainValue, ..c.clone() });
    }
    for o in opts_candidates(c.opts) {
        out.push(StreamCase { opts: o, ..c.clone() });
    }
    for i in 0..c.input.len().min(64) {
        if c.input[i] != b'a' && c.input[i] > 0x20 && !b"()[]\"#;'`,.\\".contains(&c.input[i]) {
            let mut d = c.clone();
            d.input[i] = b'a';
            out.push(d);
        }
    }
    out
}

fn trunc_candidates(c: &TruncCase) -> Vec<TruncCase> {
    let mut out = Vec::new();
    // drop bytes after k first (they only matter for the precondition), then before
    for (s, e) in shrink::byte_removals(c.text.len()) {
        let mut d = c.clone();
        d.text = shrink::remove_range(&c.text, s, e);
        d.k = shrink::shift_offset(c.k, s, e);
        if d.k < d.text.len() && stream::accepts_whole(d.opts, d.datum_api, &d.text) {
            out.push(d);
        }
    }
    if !c.chunks.is_empty() {
        out.push(TruncCase { chunks: vec![], ..c.clone() });
    }
    if c.adapter != ReadAdapter::Direct {
        out.push(TruncCase { adapter: ReadAdapter::Direct, ..c.clone() });
    }
    if c.datum_api {
        out.push(TruncCase { datum_api: false, ..c.clone() });
    }
    for o in opts_candidates(c.opts) {
        if stream::accepts_whole(o, c.datum_api, &c.text) {
            out.push(TruncCase { opts: o, ..c.clone() });
        }
    }
    out
}

fn receiver_candidates(c: &ReceiverCase) -> Vec<ReceiverCase> {
    let mut out = Vec::new();
    for i in 0..c.cuts.len() {
        let mut d = c.clone();
        d.cuts.remove(i);
        out.push(d);
    }
    for (s, e) in shrink::byte_removals(c.text.len()) {
        let mut d = c.clone();
        d.text = shrink::remove_range(&c.text, s, e);
        d.cuts = c.cuts.iter().map(|x| shrink::shift_offset(*x, s, e)).collect();
        out.push(d);
    }
    for o in opts_candidates(c.opts) {
        out.push(ReceiverCase { opts: o, ..c.clone() });
    }
    out
}

// ---------------------------------------------------------------------------
// shared draws

pub fn draw_read_plan(rng: &mut Rng, len: usize) -> ReadPlan {
    let adapter = match rng.below(20) {
        0..=7 => ReadAdapter::Direct,
        8..=9 => ReadAdapter::DynRef,
        10..=16 => ReadAdapter::BufReader { cap: match rng.below(8) { 0..=2 => rng.urange(1, 4), 3..=5 => rng.urange(1, 64), 6 => *rng.pick(&[127usize, 128, 4096, 8192]), _ => rng.urange(65, 9000) } },
        _ => ReadAdapter::Chain { split: rng.usize_below(len + 1) },
    };
    let chunks = match rng.below(10) {
        0..=2 => vec![],
        3..=4 => vec![1],
        _ => (0..rng.urange(1, 5)).map(|_| rng.urange(1, 9) as u16).collect(),
    };
    let interrupts = match rng.below(10) {
        0..=5 => Interrupts::None,
        6..=8 => Interrupts::At((0..rng.urange(1, 4)).map(|_| rng.below(2 * len as u64 + 4) as u32).collect()),
        _ => Interrupts::Alternate,
    };
    ReadPlan { adapter, chunks, interrupts, faults: vec![] }
}

#[derive(Debug, Clone, Copy, PartialEq, Eq)]
pub enum Family {
    Layout,
    Datum,
    Soup,
    Mutated,
    Tiny,
}

impl Family {
    pub fn name(self) -> &'static str {
        match self {
            Family::Layout => "layout",
            Family::Datum => "datum-grammar",
            Family::Soup => "soup",
            Family::Mutated => "mutated",
            Family::Tiny => "tiny",
        }
    }
}

/// Printed values laid out with trivia; returns the text and the parser options
/// chosen to match the printer options.
pub fn draw_layout_text(rng: &mut Rng, max_values: usize, allow_raw: bool) -> (Vec<u8>, u32) {
    let (popts, opts_ix) = match rng.below(20) {
        0..=8 => (opts::PRINT_DEFAULT, opts::PARSE_DEFAULT),
        9..=15 => (opts::print_elisp_index(), opts::parse_elisp_index()),
        _ => {
            let p = rng.below(u64::from(opts::N_PRINT)) as u32;
            (p, text::matching_parse_opts(rng, p))
        }
    };
    let elisp = opts::parse_fields(opts_ix).chr == 1;
    let mask = ValMask::draw(rng, elisp);
    let n = 1 + rng.small(max_values.saturating_sub(1));
    let values: Vec<val::V> = (0..n).map(|_| val::gen_value(rng, &mask, 3)).collect();
    let toks = text::tokens_of(&values, popts);
    let tm = TriviaMask::draw(rng, allow_raw);
    let final_comment = rng.chance(1, 8);
    let gaps = text::gen_gaps(rng, &tm, &toks, final_comment);
    (text::assemble(&toks, &gaps), opts_ix)
}

pub fn draw_text(rng: &mut Rng, opts_ix: &mut u32, max_len: usize) -> (Vec<u8>, Family) {
    let fam = match rng.below(20) {
        0..=6 => Family::Layout,
        7..=10 => Family::Datum,
        11..=14 => Family::Soup,
        15..=17 => Family::Mutated,
        _ => Family::Tiny,
    };
    let mut t = match fam {
        Family::Layout => {
            let (t, o) = draw_layout_text(rng, 3, true);
            if rng.chance(4, 5) {
                *opts_ix = o;
            }
            t
        }
        Family::Datum => text::gen_datum_text(rng, *opts_ix),
        Family::Soup => text::gen_soup(rng, 12),
        Family::Mutated => {
            let base = if rng.coin() { text::gen_datum_text(rng, *opts_ix) } else { draw_layout_text(rng, 2, true).0 };
            text::mutate(rng, &base)
        }
        Family::Tiny => text::gen_tiny(rng),
    };
    t.truncate(max_len);
    (t, fam)
}

pub const TAG_C06: u64 = 6;
pub const TAG_C19: u64 = 19;
pub const TAG_C07: u64 = 7;
pub const TAG_C12: u64 = 12;
pub const TAG_C03: u64 = 3;
pub const TAG_C17: u64 = 17;

// ---------------------------------------------------------------------------
// C06

pub fn c06_run(seed: u64, i: u64, mon: &mut Mon, found: &mut Vec<Found>) {
    let mut rng = Rng::new(run_seed(seed, TAG_C06, i));
    if rng.chance(1, 5) {
        // mixed-operation histories on a benign stream against the slice reader
        for _ in 0..8 {
            hist::c06_history_run(&mut rng, mon, found);
        }
        mon.count("scenarios");
        return;
    }
    let mut opts_ix = opts::draw_parse(&mut rng);
    let long = rng.chance(1, 25);
    let (mut input, fam) = draw_text(&mut rng, &mut opts_ix, if long { 4096 } else { 512 });
    if rng.chance(1, 400) {
        // one very long token (lengths around buffer capacities and 16-bit counters)
        input = text::gen_long_token_text(&mut rng, opts::parse_fields(opts_ix));
        mon.count("c06.long_token_scenarios");
    }
    let api = match rng.below(20) {
        0..=6 => Api::Value,
        7..=9 => Api::Datum,
        10..=13 => Api::DrainValue,
        14..=16 => Api::DrainDatum,
        _ => Api::DrainIter,
    };
    let plan = draw_read_plan(&mut rng, input.len());
    let base = StreamCase { opts: opts_ix, api, input, plan };
    mon.count(match fam {
        Family::Layout => "family.layout",
        Family::Datum => "family.datum-grammar",
        Family::Soup => "family.soup",
        Family::Mutated => "family.mutated",
        Family::Tiny => "family.tiny",
    });
    let offsets: Option<Vec<usize>> = if base.input.len() > 512 {
        Some((0..64).map(|_| rng.usize_below(base.input.len() + 1)).collect())
    } else {
        None
    };
    let salt = rng.usize_below(16);
    if mon.keep_log || i < 2 {
        mon.samples_push(|| serde_json::json!({"run": i, "engine": "E-STREAM", "opts": opts::describe_parse(base.opts), "api": base.api.name(), "input": text::show(&base.input), "plan": base.plan, "sweep": "hard error at every offset 0..=len, early end at every offset 0..len, 4 benign chunkings"}));
    }
    stream::sweep(&base, offsets.as_deref(), salt, mon, |case, v| {
        found.push(Found { violation: v.clone(), case: AnyCase::Stream(case.clone()) });
    });
    mon.count("scenarios");
}

// ---------------------------------------------------------------------------
// C19

/// A text that the parser accepts whole as a single datum, with the options
/// it was drawn for.
pub fn draw_accepted_datum(rng: &mut Rng, datum_api: bool, mon: &mut Mon) -> Option<(Vec<u8>, u32)> {
    for _ in 0..8 {
        let mut opts_ix = opts::draw_parse(rng);
        let t = if rng.chance(3, 5) {
            text::gen_datum_text(rng, opts_ix)
        } else {
            let (t, o) = draw_layout_text(rng, 1, false);
            opts_ix = o;
            t
        };
        if t.is_empty() || t.len() > 256 {
            continue;
        }
        if stream::accepts_whole(opts_ix, datum_api, &t) {
            return Some((t, opts_ix));
        }
        mon.count("c19.generated_text_rejected");
    }
    None
}

pub fn c19_run(seed: u64, i: u64, mon: &mut Mon, found: &mut Vec<Found>) {
    let mut rng = Rng::new(run_seed(seed, TAG_C19, i));
    match rng.below(10) {
        0..=5 => {
            let datum_api = rng.chance(1, 3);
            let Some((t, opts_ix)) = draw_accepted_datum(&mut rng, datum_api, mon) else {
                mon.count("c19.no_accepted_text");
                return;
            };
            let plan = draw_read_plan(&mut rng, t.len());
            let adapter = match plan.adapter {
                ReadAdapter::Chain { .. } => ReadAdapter::Direct,
                a => a,
            };
            if i < 2 {
                mon.samples_push(|| serde_json::json!({"run": i, "engine": "E-STREAM/truncation", "opts": opts::describe_parse(opts_ix), "text": text::show(&t), "sweep": "peer closes at every k in 0..len; slice, str and stream sources"}));
            }
            for k in 0..t.len() {
                let case = TruncCase { opts: opts_ix, datum_api, text: t.clone(), k, chunks: plan.chunks.clone(), adapter: adapter.clone() };
                let before = mon.violations.len();
                stream::check_trunc_case(&case, mon);
                for v in mon.violations[before..].to_vec() {
                    found.push(Found { violation: v, case: AnyCase::Trunc(case.clone()) });
                }
            }
            mon.count("c19.trunc_texts");
        }
        6 => {
            let Some((t, opts_ix)) = draw_accepted_datum(&mut rng, false, mon) else {
                return;
            };
            let n = rng.urange(1, 6);
            let cuts: Vec<usize> = (0..n).map(|_| rng.usize_below(t.len())).collect();
            let case = ReceiverCase { opts: opts_ix, text: t, cuts };
            let before = mon.violations.len();
            stream::check_receiver_case(&case, mon);
            for v in mon.violations[before..].to_vec() {
                found.push(Found { violation: v, case: AnyCase::Receiver(case.clone()) });
            }
            mon.count("c19.receiver_runs");
        }
        _ => {
            // location and conversion monitors over malformed input, all sources,
            // with read errors injected so that the Io conversion is reachable
            let mut opts_ix = opts::draw_parse(&mut rng);
            let (input, _) = draw_text(&mut rng, &mut opts_ix, 512);
            let api = *rng.pick(&stream::APIS);
            let mut plan = draw_read_plan(&mut rng, input.len());
            let base = StreamCase { opts: opts_ix, api, input, plan: plan.clone() };
            let mut refs = stream::Refs::new();
            let before = mon.violations.len();
            stream::check_str_vs_slice(&base, &mut refs, mon);
            stream::check_stream_case(&base, &mut refs, mon);
            for v in mon.violations[before..].to_vec() {
                found.push(Found { violation: v, case: AnyCase::Stream(base.clone()) });
            }
            for n in 0..3 {
                let at = rng.usize_below(base.input.len() + 1);
                plan.faults = vec![ReadFault {
                    at,
                    kind: ReadFaultKind::Hard(*rng.pick(&KINDS)),
                    sticky: rng.coin(),
                    id: 700 + n,
                    payload: payload_for(rng.usize_below(8)),
                }];
                let c = StreamCase { plan: plan.clone(), ..base.clone() };
                let before = mon.violations.len();
                stream::check_stream_case(&c, &mut refs, mon);
                for v in mon.violations[before..].to_vec() {
                    found.push(Found { violation: v, case: AnyCase::Stream(c.clone()) });
                }
            }
            mon.count("c19.monitor_runs");
        }
    }
    mon.count("scenarios");
}

// ---------------------------------------------------------------------------

pub fn run_index(prop: &str, tier: Tier, seed: u64, i: u64, mon: &mut Mon, found: &mut Vec<Found>) {
    match prop {
        "C06" => c06_run(seed, i, mon, found),
        "C19" => c19_run(seed, i, mon, found),
        "C07" => sink::c07_run(seed, i, mon, found),
        "C12" => hist::c12_run(seed, i, tier, mon, found),
        "C03" => hist::c03_run(seed, i, tier, mon, found),
        "C17" => hist::c17_run(seed, i, tier, mon, found),
        _ => panic!("unknown property {}", prop),
    }
}

/// Runs per tier: sized so that quick stays well under a minute on 16 cores.
pub fn run_count(prop: &str, tier: Tier) -> u64 {
    let (q, t) = match prop {
        "C06" => (100_000, 2_000_000),
        "C19" => (1_000_000, 20_000_000),
        "C07" => (100_000, 2_000_000),
        "C12" => (1_200_000, 24_000_000),
        "C03" => (800_000, 16_000_000),
        "C17" => (2_000_000, 40_000_000),
        _ => (1000, 10_000),
    };
    match tier {
        Tier::Quick => q,
        Tier::Thorough => t,
    }
}
