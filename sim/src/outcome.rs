//! Outcomes of parse calls, the violation type, panic capture and the
//! monitors that ride along in every engine (C17 well-formedness, C19 location
//! bounds and io::Error conversion).

use crate::world::{self, BudgetExceeded, Fired};
use lexpr::parse::error::Category;
use lexpr::Value;
use std::cell::RefCell;
use std::collections::{BTreeMap, BTreeSet};
use std::panic::{self, AssertUnwindSafe};

#[derive(Debug, Clone, Copy, PartialEq, Eq, PartialOrd, Ord)]
pub enum Cat {
    Io,
    Syntax,
    Eof,
}

impl Cat {
    pub fn name(self) -> &'static str {
        match self {
            Cat::Io => "Io",
            Cat::Syntax => "Syntax",
            Cat::Eof => "Eof",
        }
    }
}

#[derive(Debug, Clone, PartialEq)]
pub struct PErr {
    pub cat: Cat,
    /// Display text without the " at line L column C" suffix.
    pub msg: String,
    pub loc: Option<(usize, usize)>,
    /// Id of the injected fault this error carries, if any.
    pub io_id: Option<u64>,
}

/// `Ok(Some(v))` a value, `Ok(None)` end of input, `Err` an error.
pub type PRes = Result<Option<Value>, PErr>;

pub fn show_res(r: &PRes) -> String {
    match r {
        Ok(Some(v)) => {
            let mut s = format!("Ok({:?})", v);
            if s.len() > 300 {
                let mut cut = 300;
                while !s.is_char_boundary(cut) {
                    cut -= 1;
                }
                s.truncate(cut);
                s.push_str("...");
            }
            s
        }
        Ok(None) => "End".to_string(),
        Err(e) => format!(
            "Err[{}]({}{}{})",
            e.cat.name(),
            e.msg,
            match e.loc {
                Some((l, c)) => format!(" @{}:{}", l, c),
                None => String::new(),
            },
            match e.io_id {
                Some(id) => format!(" fault#{}", id),
                None => String::new(),
            }
        ),
    }
}

pub fn class_of(r: &PRes) -> &'static str {
    match r {
        Ok(Some(_)) => "ok",
        Ok(None) => "end",
        Err(e) => match e.cat {
            Cat::Io => "err-io",
            Cat::Syntax => "err-syntax",
            Cat::Eof => "err-eof",
        },
    }
}

/// Equivalence used by the differential oracles: both `Ok` with `==` values and
/// identical Debug rendering, both end, or both errors of the same category and
/// message. Locations are deliberately not compared.
pub fn equiv(a: &PRes, b: &PRes) -> bool {
    match (a, b) {
        (Ok(Some(x)), Ok(Some(y))) => x == y && format!("{:?}", x) == format!("{:?}", y),
        (Ok(None), Ok(None)) => true,
        (Err(x), Err(y)) => x.cat == y.cat && x.msg == y.msg,
        _ => false,
    }
}

pub fn equiv_seq(a: &[PRes], b: &[PRes]) -> bool {
    a.len() == b.len() && a.iter().zip(b).all(|(x, y)| equiv(x, y))
}

// ---------------------------------------------------------------------------

#[derive(Debug, Clone, PartialEq)]
pub struct Violation {
    pub property: &'static str,
    pub clause: &'static str,
    pub detail: String,
    /// Short, stable description of *what* went wrong (no run-specific data);
    /// shrinking keeps it fixed and known findings match on it.
    pub sig: String,
}

/// Per-run collector of violations, counters and distinct-tuple identities.
#[derive(Default)]
pub struct Mon {
    pub violations: Vec<Violation>,
    pub counters: BTreeMap<&'static str, u64>,
    pub dyn_counters: BTreeMap<String, u64>,
    pub maxes: BTreeMap<&'static str, u64>,
    pub sets: BTreeMap<&'static str, BTreeSet<u64>>,
    pub tuples: BTreeSet<String>,
    pub evaluations: u64,
    pub steps: u64,
    pub log: Vec<String>,
    pub keep_log: bool,
    pub digest: u64,
    pub samples: Vec<serde_json::Value>,
    /// In single-run mode: where to note the case about to execute, so that a
    /// process death can be attributed to it.
    pub crash_file: Option<std::path::PathBuf>,
}

impl Mon {
    pub fn new(keep_log: bool) -> Mon {
        Mon { keep_log, ..Default::default() }
    }
    pub fn before_case(&mut self, f: impl FnOnce() -> String) {
        if let Some(p) = &self.crash_file {
            let _ = std::fs::write(p, f());
        }
    }
    pub fn samples_push(&mut self, f: impl FnOnce() -> serde_json::Value) {
        if self.samples.len() < 4 {
            self.samples.push(f());
        }
    }
    pub fn count(&mut self, key: &'static str) {
        *self.counters.entry(key).or_insert(0) += 1;
    }
    pub fn max(&mut self, key: &'static str, v: u64) {
        let e = self.maxes.entry(key).or_insert(0);
        if v > *e {
            *e = v;
        }
    }
    pub fn tiny(&mut self, input: &[u8]) {
        match input.len() {
            1 => {
                self.sets.entry("tiny.len1_inputs_seen").or_default().insert(u64::from(input[0]));
            }
            2 => {
                self.sets.entry("tiny.len2_inputs_seen").or_default().insert(u64::from(input[0]) * 256 + u64::from(input[1]));
            }
            _ => {}
        }
    }
    /// All 256 three-byte inputs that start with these two bytes were run.
    pub fn tiny3_block(&mut self, prefix: usize) {
        self.sets.entry("tiny.len3_blocks_of_256_seen").or_default().insert(prefix as u64);
    }
    pub fn opts_seen(&mut self, ix: u32) {
        self.sets.entry("parse_option_sets_seen").or_default().insert(u64::from(ix));
    }
    pub fn count_dyn(&mut self, key: String) {
        *self.dyn_counters.entry(key).or_insert(0) += 1;
    }
    pub fn add(&mut self, key: &'static str, n: u64) {
        *self.counters.entry(key).or_insert(0) += n;
    }
    pub fn tuple(&mut self, t: String) {
        self.tuples.insert(t);
    }
    pub fn violate(&mut self, property: &'static str, clause: &'static str, sig: String, detail: String) {
        self.violations.push(Violation { property, clause, detail, sig });
    }
    pub fn event(&mut self, f: impl FnOnce() -> String) {
        if self.keep_log {
            let s = f();
            self.digest = crate::prng::fnv(s.as_bytes()) ^ self.digest.rotate_left(5);
            self.log.push(s);
        }
    }
    /// Fold an outcome into the run digest (always on; cheap).
    pub fn fold(&mut self, r: &PRes) {
        let h = match r {
            Ok(Some(v)) => crate::prng::fnv(format!("{:?}", v).as_bytes()),
            Ok(None) => 0x1111,
            Err(e) => crate::prng::fnv(e.msg.as_bytes()) ^ (e.cat as u64) ^ e.loc.map(|(l, c)| (l * 131 + c) as u64).unwrap_or(7),
        };
        self.digest = h ^ self.digest.rotate_left(5);
    }
}

// ---------------------------------------------------------------------------
// panic capture

thread_local! {
    static LAST_PANIC: RefCell<Option<String>> = const { RefCell::new(None) };
    static IN_GUARD: std::cell::Cell<bool> = const { std::cell::Cell::new(false) };
}

pub fn install_panic_hook() {
    panic::set_hook(Box::new(|info| {
        let loc = info
            .location()
            .map(|l| {
                let f = l.file();
                // strip the checkout root so signatures survive scratch copies
                let f = f.rsplit_once("/lexpr/src/").map(|(_, r)| format!("lexpr/src/{}", r)).unwrap_or_else(|| f.to_string());
                format!("{}:{}", f, l.line())
            })
            .unwrap_or_default();
        let msg = if let Some(s) = info.payload().downcast_ref::<&str>() {
            (*s).to_string()
        } else if let Some(s) = info.payload().downcast_ref::<String>() {
            s.clone()
        } else {
            "<non-string panic>".to_string()
        };
        if !IN_GUARD.with(|g| g.get()) {
            // a panic of the harness itself, not of the code under test
            eprintln!("harness panic: {} at {}", msg, loc);
        }
        LAST_PANIC.with(|p| *p.borrow_mut() = Some(format!("{} at {}", msg, loc)));
    }));
}

#[derive(Debug, Clone, PartialEq)]
pub enum Abnormal {
    Panic(String),
    /// The call made more read/write calls than any terminating implementation needs.
    Budget,
}

pub fn guarded<T>(f: impl FnOnce() -> T) -> Result<T, Abnormal> {
    LAST_PANIC.with(|p| *p.borrow_mut() = None);
    let was = IN_GUARD.with(|g| g.replace(true));
    let r = panic::catch_unwind(AssertUnwindSafe(f));
    IN_GUARD.with(|g| g.set(was));
    match r {
        Ok(v) => Ok(v),
        Err(payload) => {
            if payload.downcast_ref::<BudgetExceeded>().is_some() {
                Err(Abnormal::Budget)
            } else {
                let msg = LAST_PANIC
                    .with(|p| p.borrow_mut().take())
                    .unwrap_or_else(|| "<panic without message>".to_string());
                Err(Abnormal::Panic(msg))
            }
        }
    }
}

pub const HOOK_PREFIX: &str = "lexpr_verif: ill-formed UTF-8";

/// Turn an abnormal termination into a violation of the right property.
pub fn report_abnormal(mon: &mut Mon, ab: &Abnormal, what: &str) {
    match ab {
        Abnormal::Panic(msg) if msg.starts_with(HOOK_PREFIX) => {
            // the payload names the site; strip the byte dump for the signature
            let site = msg.split(':').nth(1).unwrap_or("").split(' ').take(9).collect::<Vec<_>>().join(" ");
            let _ = site;
            let sig = msg.split(": [").next().unwrap_or(msg).to_string();
            mon.violate("C17", "M17.1", sig, format!("{}: {}", what, msg));
        }
        Abnormal::Panic(msg) => {
            let sig = format!("panic: {}", strip_numbers_in_panic(msg));
            mon.violate("C03", "O3.1", sig, format!("{}: panicked: {}", what, msg));
        }
        Abnormal::Budget => {
            mon.violate("C03", "O3.1", "call does not return (read/write budget exceeded)".into(), format!("{}: exceeded the per-call I/O budget", what));
        }
    }
}

fn strip_numbers_in_panic(msg: &str) -> String {
    // "index out of bounds: the len is 3 but the index is 4 at lexpr/src/..:12" keeps
    // the location, drops run-specific numbers in the message part.
    match msg.rsplit_once(" at ") {
        Some((m, loc)) => {
            let m: String = m.chars().map(|c| if c.is_ascii_digit() { '#' } else { c }).collect();
            format!("{} at {}", m, loc)
        }
        None => msg.to_string(),
    }
}

// ---------------------------------------------------------------------------
// monitors

/// M17.2: every str reachable from a returned value is well-formed UTF-8.
/// Returns false when an ill-formed str was found; the caller must then not
/// format, compare or otherwise look into the value again (an ill-formed str is
/// undefined behaviour waiting to happen), only drop it.
pub fn check_utf8_value(v: &Value, mon: &mut Mon, what: &str) -> bool {
    let mut well_formed = true;
    fn bad(s: &str) -> bool {
        std::str::from_utf8(std::hint::black_box(s.as_bytes())).is_err()
    }
    let mut stack: Vec<&Value> = vec![v];
    while let Some(v) = stack.pop() {
        match v {
            Value::String(s) | Value::Symbol(s) | Value::Keyword(s) => {
                if bad(s) {
                    let kind = match v {
                        Value::String(_) => "string",
                        Value::Symbol(_) => "symbol",
                        _ => "keyword",
                    };
                    well_formed = false;
                    mon.violate(
                        "C17",
                        "M17.2",
                        format!("ill-formed UTF-8 in returned {}", kind),
                        format!("{}: returned {} holds bytes {:?}", what, kind, s.as_bytes()),
                    );
                }
            }
            Value::Cons(c) => {
                for pair in c.iter() {
                    stack.push(pair.car());
                    match pair.cdr() {
                        Value::Cons(_) | Value::Null => {}
                        other => stack.push(other),
                    }
                }
            }
            Value::Vector(items) => {
                for it in items.iter() {
                    stack.push(it);
                }
            }
            _ => {}
        }
    }
    well_formed
}

/// Newline offsets of an input, computed on first use (an error storm on a
/// large input would otherwise rescan it for every error).
#[derive(Default)]
pub struct LineIndex {
    cell: std::cell::OnceCell<Vec<usize>>,
}

impl LineIndex {
    pub fn new() -> LineIndex {
        LineIndex::default()
    }
    fn get(&self, input: &[u8]) -> &Vec<usize> {
        self.cell.get_or_init(|| input.iter().enumerate().filter(|(_, c)| **c == b'\n').map(|(i, _)| i).collect())
    }
}

/// The part of the input the parser can have seen when an error was raised.
pub struct Seen<'a> {
    pub input: &'a [u8],
    pub len: usize,
    pub idx: Option<&'a LineIndex>,
}

impl<'a> Seen<'a> {
    pub fn all(input: &'a [u8]) -> Seen<'a> {
        Seen { input, len: input.len(), idx: None }
    }
    pub fn prefix(input: &'a [u8], len: usize) -> Seen<'a> {
        Seen { input, len: len.min(input.len()), idx: None }
    }
}

/// O19.3: is (line, column) inside the seen input, by the loosest reading of the
/// statement? Lines are counted including a last unterminated one; one more
/// line (of length 0) is allowed; the column may be one past the line's length.
pub fn loc_in_bounds(seen: &Seen<'_>, line: usize, col: usize) -> bool {
    if line < 1 {
        return false;
    }
    let len = seen.len.min(seen.input.len());
    let scratch;
    let nl: &[usize] = match seen.idx {
        Some(ix) => {
            let all = ix.get(seen.input);
            let k = all.partition_point(|p| *p < len);
            &all[..k]
        }
        None => {
            scratch = seen.input[..len].iter().enumerate().filter(|(_, c)| **c == b'\n').map(|(i, _)| i).collect::<Vec<usize>>();
            &scratch
        }
    };
    let k = nl.len(); // newlines seen; lines seen = k + 1
    let line_len = if line <= k {
        let start = if line == 1 { 0 } else { nl[line - 2] + 1 };
        nl[line - 1] - start
    } else if line == k + 1 {
        let start = if k == 0 { 0 } else { nl[k - 1] + 1 };
        len - start
    } else if line == k + 2 {
        0
    } else {
        return false;
    };
    col <= line_len + 1
}

/// Digest a lexpr error: classify, take location and text, check the source
/// chain, convert to io::Error and check the documented kind (O19.2) and the
/// location bounds (O19.3).
pub fn digest_error(e: lexpr::parse::Error, seen: &Seen<'_>, fired: &[Fired], mon: &mut Mon, what: &str) -> PErr {
    let cat = match e.classify() {
        Category::Io => Cat::Io,
        Category::Syntax => Cat::Syntax,
        Category::Eof => Cat::Eof,
    };
    let loc = e.location().map(|l| (l.line(), l.column()));
    let full = e.to_string();
    // The error "kind" is its Display text without the location. How the location
    // is rendered is not ours to assume: today's suffix is stripped when present,
    // and in any case digits are dropped from located errors, so that two readers
    // reporting different positions for the same error still compare equal.
    let msg = match loc {
        Some((l, c)) => {
            let suffix = format!(" at line {} column {}", l, c);
            let m = full.strip_suffix(suffix.as_str()).unwrap_or(&full);
            m.chars().filter(|ch| !ch.is_ascii_digit()).collect::<String>()
        }
        None => full.clone(),
    };
    // source() route
    let mut src_id = None;
    if let Some(src) = std::error::Error::source(&e) {
        if let Some(ioe) = src.downcast_ref::<std::io::Error>() {
            src_id = world::fired_id(ioe, fired);
        }
    }
    match cat {
        Cat::Syntax | Cat::Eof => match loc {
            None => mon.violate(
                "C19",
                "O19.3",
                format!("{} error without a location", cat.name()),
                format!("{}: {:?} has no location", what, full),
            ),
            Some((l, c)) => {
                if !loc_in_bounds(seen, l, c) {
                    mon.violate(
                        "C19",
                        "O19.3",
                        format!("location out of bounds ({})", msg),
                        format!("{}: error {:?} reports line {} column {}, outside the {} bytes seen", what, full, l, c, seen.len),
                    );
                }
            }
        },
        Cat::Io => {}
    }
    // conversion route (consumes the error)
    let ioe: std::io::Error = e.into();
    let conv_id = world::fired_id(&ioe, fired);
    match cat {
        Cat::Syntax => {
            if ioe.kind() != std::io::ErrorKind::InvalidData {
                mon.violate("C19", "O19.2", "syntax error converts to wrong io kind".into(), format!("{}: {:?} converts to {:?}", what, full, ioe.kind()));
            }
        }
        Cat::Eof => {
            if ioe.kind() != std::io::ErrorKind::UnexpectedEof {
                mon.violate("C19", "O19.2", "EOF error converts to wrong io kind".into(), format!("{}: {:?} converts to {:?}", what, full, ioe.kind()));
            }
        }
        Cat::Io => {
            // the conversion must hand back the very error that was injected
            match conv_id {
                Some(_) => {}
                _ => mon.violate(
                    "C19",
                    "O19.2",
                    "I/O error does not convert back to the injected error".into(),
                    format!("{}: Io-category error {:?} converts to kind {:?} payload {:?}; fired faults: {:?}", what, full, ioe.kind(), conv_id, fired),
                ),
            }
        }
    }
    mon.count(match cat {
        Cat::Io => "errors.io",
        Cat::Syntax => "errors.syntax",
        Cat::Eof => "errors.eof",
    });
    PErr { cat, msg, loc, io_id: conv_id.or(src_id) }
}


// ---------------------------------------------------------------------------
// in-process hang watchdog

static LAST_BEAT_MS: std::sync::atomic::AtomicU64 = std::sync::atomic::AtomicU64::new(0);
static WATCHDOG_EPOCH: std::sync::OnceLock<std::time::Instant> = std::sync::OnceLock::new();

/// Exit status of a process that its own watchdog stopped.
pub const HANG_EXIT: i32 = 86;

/// Called at the start of every API call of every scenario (and by the
/// minimiser per candidate): "still making progress".
#[inline]
pub fn beat() {
    if let Some(t0) = WATCHDOG_EPOCH.get() {
        LAST_BEAT_MS.store(t0.elapsed().as_millis() as u64, std::sync::atomic::Ordering::Relaxed);
    }
}

/// Start a thread that ends the process with `HANG_EXIT` when no API call has
/// started for `limit`: a single call of a healthy library takes microseconds to
/// milliseconds, so this only ever fires on a call that does not return without
/// reading or writing (those are caught by the I/O budgets first). Like the
/// parent's backstop this consults wall time, and like it, it can only turn a
/// non-returning call into a report, never a healthy run into a violation: the
/// run is re-executed alone before anything is reported.
pub fn start_watchdog(limit: std::time::Duration) {
    let t0 = *WATCHDOG_EPOCH.get_or_init(std::time::Instant::now);
    beat();
    std::thread::spawn(move || loop {
        std::thread::sleep(std::time::Duration::from_millis(250));
        let last = LAST_BEAT_MS.load(std::sync::atomic::Ordering::Relaxed);
        let now = t0.elapsed().as_millis() as u64;
        if now.saturating_sub(last) > limit.as_millis() as u64 {
            use std::io::Write;
            let mut o = std::io::stdout().lock();
            let _ = writeln!(o, "X");
            let _ = o.flush();
            std::process::exit(HANG_EXIT);
        }
    });
}

pub fn op_hang_limit() -> std::time::Duration {
    std::time::Duration::from_secs(std::env::var("VERIF_OP_HANG_S").ok().and_then(|s| s.parse().ok()).unwrap_or(20))
}
