//! The simulated environment: scripted stream endpoints. These three types are
//! the only stubs; everything between them and lexpr (io::Bytes, BufReader,
//! Chain, BufWriter, write_all, write_fmt) is real std code.

use serde::{Deserialize, Serialize};
use std::cell::{Cell, RefCell};
use std::fmt;
use std::io;
use std::rc::Rc;

/// Payload of every injected hard error, so identity can be checked by downcast.
#[derive(Debug, Clone, Copy, PartialEq, Eq)]
pub struct SimFault {
    pub id: u64,
}

impl fmt::Display for SimFault {
    fn fmt(&self, f: &mut fmt::Formatter<'_>) -> fmt::Result {
        write!(f, "simulated fault #{}", self.id)
    }
}

impl std::error::Error for SimFault {}

/// Unwind payload used when a single call makes more read calls than any
/// terminating implementation could need.
pub struct BudgetExceeded;

#[derive(Debug, Clone, Copy, PartialEq, Eq, Serialize, Deserialize, PartialOrd, Ord)]
pub enum Kind {
    ConnectionReset,
    BrokenPipe,
    TimedOut,
    WouldBlock,
    UnexpectedEof,
    InvalidData,
    Other,
}

pub const KINDS: [Kind; 7] = [
    Kind::ConnectionReset,
    Kind::BrokenPipe,
    Kind::TimedOut,
    Kind::WouldBlock,
    Kind::UnexpectedEof,
    Kind::InvalidData,
    Kind::Other,
];

impl Kind {
    pub fn to_io(self) -> io::ErrorKind {
        match self {
            Kind::ConnectionReset => io::ErrorKind::ConnectionReset,
            Kind::BrokenPipe => io::ErrorKind::BrokenPipe,
            Kind::TimedOut => io::ErrorKind::TimedOut,
            Kind::WouldBlock => io::ErrorKind::WouldBlock,
            Kind::UnexpectedEof => io::ErrorKind::UnexpectedEof,
            Kind::InvalidData => io::ErrorKind::InvalidData,
            Kind::Other => io::ErrorKind::Other,
        }
    }
    pub fn name(self) -> &'static str {
        match self {
            Kind::ConnectionReset => "ConnectionReset",
            Kind::BrokenPipe => "BrokenPipe",
            Kind::TimedOut => "TimedOut",
            Kind::WouldBlock => "WouldBlock",
            Kind::UnexpectedEof => "UnexpectedEof",
            Kind::InvalidData => "InvalidData",
            Kind::Other => "Other",
        }
    }
}

/// What an injected error carries. Errors made by the operating system have no
/// custom payload (`from_raw_os_error`), errors made with `io::Error::from(kind)`
/// carry nothing at all; a library that tells errors apart by their payload
/// must be right for those too.
#[derive(Debug, Clone, Copy, PartialEq, Eq, Serialize, Deserialize, PartialOrd, Ord, Default)]
pub enum Payload {
    /// `io::Error::new(kind, SimFault { id })`
    #[default]
    Custom,
    /// `io::Error::from(kind)`
    Bare,
    /// `io::Error::from_raw_os_error(errno)`; the kind is whatever std derives
    Os(i32),
}

pub const OS_CODES: [i32; 6] = [5, 11, 32, 104, 110, 28]; // EIO EAGAIN EPIPE ECONNRESET ETIMEDOUT ENOSPC

pub fn make_error(kind: Kind, id: u64, payload: Payload) -> io::Error {
    match payload {
        Payload::Custom => io::Error::new(kind.to_io(), SimFault { id }),
        Payload::Bare => io::Error::from(kind.to_io()),
        Payload::Os(code) => io::Error::from_raw_os_error(code),
    }
}

/// Payload cycled by a counter: half custom, a quarter bare, a quarter OS errors.
pub fn payload_for(n: usize) -> Payload {
    match n % 4 {
        0 | 1 => Payload::Custom,
        2 => Payload::Bare,
        _ => Payload::Os(OS_CODES[(n / 4) % OS_CODES.len()]),
    }
}

/// Is `err` the error injected by `f`? Custom payloads are identified by
/// downcast, bare errors by kind and absence of any payload, OS errors by
/// their raw code.
pub fn is_fired(err: &io::Error, f: &Fired) -> bool {
    let Some(kind) = f.hard else { return false };
    match f.payload {
        Payload::Custom => {
            err.kind() == kind.to_io() && err.get_ref().and_then(|i| i.downcast_ref::<SimFault>()).map(|x| x.id == f.id).unwrap_or(false)
        }
        Payload::Bare => err.kind() == kind.to_io() && err.get_ref().is_none() && err.raw_os_error().is_none(),
        Payload::Os(code) => err.raw_os_error() == Some(code),
    }
}

/// The id of the fired fault that `err` is, if any.
pub fn fired_id(err: &io::Error, fired: &[Fired]) -> Option<u64> {
    fired.iter().find(|f| is_fired(err, f)).map(|f| f.id)
}

// ---------------------------------------------------------------------------
// Reader side

#[derive(Debug, Clone, PartialEq, Eq, Serialize, Deserialize)]
pub enum ReadFaultKind {
    Hard(Kind),
    /// `Ok(0)` before the real end: the peer closed or crashed.
    Eof,
}

#[derive(Debug, Clone, PartialEq, Eq, Serialize, Deserialize)]
pub struct ReadFault {
    /// Delivered-byte offset at which the fault fires.
    pub at: usize,
    pub kind: ReadFaultKind,
    pub sticky: bool,
    pub id: u64,
    #[serde(default)]
    pub payload: Payload,
}

#[derive(Debug, Clone, PartialEq, Eq, Serialize, Deserialize)]
pub enum ReadAdapter {
    Direct,
    DynRef,
    BufReader { cap: usize },
    /// First `split` bytes come from an in-memory slice, the rest from the
    /// scripted stream, joined by `io::Read::chain`.
    Chain { split: usize },
}

#[derive(Debug, Clone, PartialEq, Eq, Serialize, Deserialize)]
pub enum Interrupts {
    None,
    /// Read-call indices answered with `Interrupted`.
    At(Vec<u32>),
    /// Every even-numbered call is answered with `Interrupted`.
    Alternate,
}

#[derive(Debug, Clone, PartialEq, Eq, Serialize, Deserialize)]
pub struct ReadPlan {
    pub adapter: ReadAdapter,
    /// Cyclic; max bytes handed out per read call. Empty = as many as asked.
    pub chunks: Vec<u16>,
    pub interrupts: Interrupts,
    pub faults: Vec<ReadFault>,
}

impl ReadPlan {
    pub fn benign() -> ReadPlan {
        ReadPlan {
            adapter: ReadAdapter::Direct,
            chunks: vec![],
            interrupts: Interrupts::None,
            faults: vec![],
        }
    }
}

#[derive(Debug, Clone, PartialEq, Eq)]
pub struct Fired {
    pub id: u64,
    pub at: usize,
    pub hard: Option<Kind>,
    pub call: u64,
    pub payload: Payload,
}

/// State of a scripted reader that the harness can look at while the parser
/// owns (or mutably borrows) the reader itself.
#[derive(Default)]
pub struct ReadShared {
    /// Bumped by the harness at the start of every API call; resets the budget.
    pub epoch: Cell<u64>,
    /// Bytes delivered so far, counted from the start of the whole input.
    pub delivered: Cell<usize>,
    pub calls: Cell<u64>,
    pub interrupts_fired: Cell<u64>,
    pub short_reads: Cell<u64>,
    pub end_polls: Cell<u64>,
    pub budget_tripped: Cell<bool>,
    pub fired: RefCell<Vec<Fired>>,
    /// When set, every read call is recorded as `(call, asked, answer)` for the
    /// replay file's event log.
    pub trace: Cell<bool>,
    pub calls_log: RefCell<Vec<String>>,
}

impl ReadShared {
    pub fn begin_op(&self) {
        self.epoch.set(self.epoch.get() + 1);
    }
    pub fn n_fired(&self) -> usize {
        self.fired.borrow().len()
    }
}

pub struct SimReader<'a> {
    data: &'a [u8],
    /// Offset of `data[0]` within the whole input (non-zero under `Chain`).
    base: usize,
    pos: usize,
    chunks: Vec<u16>,
    interrupts: Interrupts,
    faults: Vec<(ReadFault, bool)>,
    calls: u64,
    /// Read calls made in the current epoch, and the limit for it.
    seen_epoch: u64,
    op_calls: u64,
    op_limit: u64,
    chunk_ix: usize,
    pub shared: Rc<ReadShared>,
}

impl<'a> SimReader<'a> {
    pub fn new(input: &'a [u8], plan: &ReadPlan) -> SimReader<'a> {
        let split = match plan.adapter {
            ReadAdapter::Chain { split } => split.min(input.len()),
            _ => 0,
        };
        let shared = Rc::new(ReadShared::default());
        shared.delivered.set(split);
        let mut r = SimReader {
            data: &input[split..],
            base: split,
            pos: 0,
            chunks: plan.chunks.iter().map(|c| (*c).max(1)).collect(),
            interrupts: plan.interrupts.clone(),
            faults: plan
                .faults
                .iter()
                .filter(|f| f.at >= split)
                .map(|f| (f.clone(), false))
                .collect(),
            calls: 0,
            seen_epoch: 0,
            op_calls: 0,
            op_limit: u64::MAX,
            chunk_ix: 0,
            shared,
        };
        r.reset_budget();
        r
    }

    fn pending_faults(&self) -> u64 {
        self.faults.iter().filter(|(_, spent)| !*spent).count() as u64
    }

    /// Reset the per-call read budget (DESIGN 3.5).
    fn reset_budget(&mut self) {
        self.op_calls = 0;
        let remaining = (self.data.len() - self.pos) as u64;
        let base = remaining + self.pending_faults() + 4096;
        self.op_limit = match &self.interrupts {
            Interrupts::None => base,
            Interrupts::At(v) => base + v.len() as u64,
            Interrupts::Alternate => 2 * base + 2,
        };
    }
}

impl<'a> io::Read for SimReader<'a> {
    fn read(&mut self, buf: &mut [u8]) -> io::Result<usize> {
        let call = self.calls;
        let r = self.read_inner(buf);
        if self.shared.trace.get() && self.shared.calls_log.borrow().len() < 400 {
            let answer = match &r {
                Ok(n) => format!("Ok({})", n),
                Err(e) => format!("Err({:?})", e.kind()),
            };
            self.shared.calls_log.borrow_mut().push(format!("read#{} asked {} at offset {} -> {}", call, buf.len(), self.base + self.pos, answer));
        }
        r
    }
}

impl<'a> SimReader<'a> {
    fn read_inner(&mut self, buf: &mut [u8]) -> io::Result<usize> {
        let epoch = self.shared.epoch.get();
        if epoch != self.seen_epoch {
            self.seen_epoch = epoch;
            self.reset_budget();
        }
        let call = self.calls;
        self.calls += 1;
        self.shared.calls.set(self.calls);
        self.op_calls += 1;
        if self.op_calls > self.op_limit {
            self.shared.budget_tripped.set(true);
            std::panic::resume_unwind(Box::new(BudgetExceeded));
        }
        if buf.is_empty() {
            return Ok(0);
        }
        let interrupted = match &self.interrupts {
            Interrupts::None => false,
            Interrupts::At(v) => call <= u64::from(u32::MAX) && v.contains(&(call as u32)),
            Interrupts::Alternate => call % 2 == 0,
        };
        if interrupted {
            self.shared.interrupts_fired.set(self.shared.interrupts_fired.get() + 1);
            return Err(io::Error::from(io::ErrorKind::Interrupted));
        }
        let abs = self.base + self.pos;
        if let Some((fault, spent)) = self
            .faults
            .iter_mut()
            .find(|(f, spent)| !*spent && f.at == abs)
        {
            if !fault.sticky {
                *spent = true;
            }
            let hard = match fault.kind {
                ReadFaultKind::Hard(k) => Some(k),
                ReadFaultKind::Eof => None,
            };
            let payload = fault.payload;
            self.shared.fired.borrow_mut().push(Fired {
                id: fault.id,
                at: abs,
                hard,
                call,
                payload,
            });
            return match hard {
                Some(k) => Err(make_error(k, fault.id, payload)),
                None => Ok(0),
            };
        }
        let remaining = self.data.len() - self.pos;
        if remaining == 0 {
            self.shared.end_polls.set(self.shared.end_polls.get() + 1);
            return Ok(0);
        }
        let mut n = buf.len().min(remaining);
        if !self.chunks.is_empty() {
            let cap = self.chunks[self.chunk_ix % self.chunks.len()] as usize;
            self.chunk_ix += 1;
            n = n.min(cap);
        }
        // never run past the next pending fault offset
        for (f, spent) in &self.faults {
            if !*spent && f.at > abs {
                n = n.min(f.at - abs);
            }
        }
        if n < buf.len().min(remaining) {
            self.shared.short_reads.set(self.shared.short_reads.get() + 1);
        }
        buf[..n].copy_from_slice(&self.data[self.pos..self.pos + n]);
        self.pos += n;
        self.shared.delivered.set(self.base + self.pos);
        Ok(n)
    }
}

/// Run `f` with the reader wrapped in the plan's adapter. The closure receives a
/// `&mut dyn io::Read`, or for the monomorphic adapters is instantiated per type
/// through the `WithReader` trait.
pub trait WithReader {
    type Out;
    fn call<R: io::Read>(self, reader: R) -> Self::Out;
}

pub fn with_adapter<W: WithReader>(
    input: &[u8],
    plan: &ReadPlan,
    sim: &mut SimReader<'_>,
    w: W,
) -> W::Out {
    match plan.adapter {
        ReadAdapter::Direct => w.call(sim),
        ReadAdapter::DynRef => {
            let r: &mut dyn io::Read = sim;
            w.call(r)
        }
        ReadAdapter::BufReader { cap } => w.call(io::BufReader::with_capacity(cap.max(1), sim)),
        ReadAdapter::Chain { split } => {
            let split = split.min(input.len());
            let head = &input[..split];
            w.call(io::Read::chain(head, sim))
        }
    }
}

// ---------------------------------------------------------------------------
// Writer side

#[derive(Debug, Clone, PartialEq, Eq, Serialize, Deserialize)]
pub enum WriteFaultKind {
    Hard(Kind),
    /// `Ok(0)` from here on: a full buffer or full disk.
    Zero,
}

#[derive(Debug, Clone, PartialEq, Eq, Serialize, Deserialize)]
pub struct WriteFault {
    /// Delivered-byte offset at which the fault fires.
    pub at: usize,
    pub kind: WriteFaultKind,
    pub sticky: bool,
    pub id: u64,
    #[serde(default)]
    pub payload: Payload,
}

#[derive(Debug, Clone, PartialEq, Eq, Serialize, Deserialize)]
pub enum WriteAdapter {
    Direct,
    DynRef,
    BufWriter { cap: usize },
}

#[derive(Debug, Clone, PartialEq, Eq, Serialize, Deserialize)]
pub struct WritePlan {
    /// Does the sink implement `write_vectored` natively (like a socket or a
    /// fixed buffer), accepting bytes across the buffers offered? Otherwise the
    /// std default applies (only the first non-empty buffer is offered to `write`).
    #[serde(default)]
    pub vectored: bool,
    pub adapter: WriteAdapter,
    /// Cyclic per-call cap (>= 1). Empty = accept everything offered.
    pub accepts: Vec<u16>,
    pub interrupts: Interrupts,
    pub faults: Vec<WriteFault>,
}

impl WritePlan {
    pub fn benign() -> WritePlan {
        WritePlan {
            vectored: false,
            adapter: WriteAdapter::Direct,
            accepts: vec![],
            interrupts: Interrupts::None,
            faults: vec![],
        }
    }
}

#[derive(Debug, Clone, PartialEq, Eq)]
pub enum WriteAnswer {
    Accepted(usize),
    Interrupted,
    Hard(Kind, u64, Payload),
    Zero,
}

pub struct SimWriter {
    /// When set, every write call is recorded for the replay file's event log.
    pub trace: bool,
    pub calls_log: Vec<String>,
    vectored: bool,
    pub vectored_calls: u64,
    pub delivered: Vec<u8>,
    accepts: Vec<u16>,
    interrupts: Interrupts,
    faults: Vec<(WriteFault, bool)>,
    pub calls: u64,
    pub flushes: u64,
    pub short_writes: u64,
    pub interrupts_fired: u64,
    pub fired: Vec<Fired>,
    pub last_answer: Option<WriteAnswer>,
    accept_ix: usize,
    op_calls: u64,
    op_limit: u64,
}

impl SimWriter {
    pub fn new(plan: &WritePlan) -> SimWriter {
        SimWriter {
            trace: false,
            calls_log: Vec::new(),
            vectored: plan.vectored,
            vectored_calls: 0,
            delivered: Vec::new(),
            accepts: plan.accepts.iter().map(|c| (*c).max(1)).collect(),
            interrupts: plan.interrupts.clone(),
            faults: plan.faults.iter().map(|f| (f.clone(), false)).collect(),
            calls: 0,
            flushes: 0,
            short_writes: 0,
            interrupts_fired: 0,
            fired: vec![],
            last_answer: None,
            accept_ix: 0,
            op_calls: 0,
            op_limit: u64::MAX,
        }
    }

    /// A print call producing `expected_len` bytes may make at most this many
    /// write calls before it is declared non-terminating.
    pub fn begin_op(&mut self, expected_len: usize) {
        self.op_calls = 0;
        self.op_limit = 4 * (expected_len as u64) + 4096;
    }

}

impl io::Write for SimWriter {
    fn write(&mut self, buf: &[u8]) -> io::Result<usize> {
        let call = self.calls;
        let at = self.delivered.len();
        let r = self.write_inner(buf);
        if self.trace && self.calls_log.len() < 400 {
            let answer = match &r {
                Ok(n) => format!("Ok({})", n),
                Err(e) => format!("Err({:?})", e.kind()),
            };
            self.calls_log.push(format!("write#{} offered {} at offset {} -> {}", call, buf.len(), at, answer));
        }
        r
    }

    fn write_vectored(&mut self, bufs: &[io::IoSlice<'_>]) -> io::Result<usize> {
        self.vectored_calls += 1;
        if self.vectored {
            // a native gather write: the same script applied to the concatenation
            let all: Vec<u8> = bufs.iter().flat_map(|b| b.iter().copied()).collect();
            self.write(&all)
        } else {
            let first = bufs.iter().find(|b| !b.is_empty()).map_or(&[][..], |b| &**b);
            self.write(first)
        }
    }

    fn flush(&mut self) -> io::Result<()> {
        self.flushes += 1;
        if self.trace {
            self.calls_log.push("flush".to_string());
        }
        Ok(())
    }
}

impl SimWriter {
    fn write_inner(&mut self, buf: &[u8]) -> io::Result<usize> {
        let call = self.calls;
        self.calls += 1;
        self.op_calls += 1;
        if self.op_calls > self.op_limit {
            std::panic::resume_unwind(Box::new(BudgetExceeded));
        }
        if buf.is_empty() {
            self.last_answer = Some(WriteAnswer::Accepted(0));
            return Ok(0);
        }
        let interrupted = match &self.interrupts {
            Interrupts::None => false,
            Interrupts::At(v) => v.contains(&(call as u32)) && call <= u64::from(u32::MAX),
            Interrupts::Alternate => call % 2 == 0,
        };
        if interrupted {
            self.interrupts_fired += 1;
            self.last_answer = Some(WriteAnswer::Interrupted);
            return Err(io::Error::from(io::ErrorKind::Interrupted));
        }
        let at = self.delivered.len();
        if let Some((fault, spent)) = self
            .faults
            .iter_mut()
            .find(|(f, spent)| !*spent && f.at == at)
        {
            let zero = fault.kind == WriteFaultKind::Zero;
            if !fault.sticky && !zero {
                *spent = true;
            }
            let hard = match fault.kind {
                WriteFaultKind::Hard(k) => Some(k),
                WriteFaultKind::Zero => None,
            };
            let payload = fault.payload;
            self.fired.push(Fired {
                id: fault.id,
                at,
                hard,
                call,
                payload,
            });
            return match hard {
                Some(k) => {
                    self.last_answer = Some(WriteAnswer::Hard(k, fault.id, payload));
                    Err(make_error(k, fault.id, payload))
                }
                None => {
                    self.last_answer = Some(WriteAnswer::Zero);
                    Ok(0)
                }
            };
        }
        let mut n = buf.len();
        if !self.accepts.is_empty() {
            let cap = self.accepts[self.accept_ix % self.accepts.len()] as usize;
            self.accept_ix += 1;
            n = n.min(cap);
        }
        for (f, spent) in &self.faults {
            if !*spent && f.at > at {
                n = n.min(f.at - at);
            }
        }
        if n < buf.len() {
            self.short_writes += 1;
        }
        self.delivered.extend_from_slice(&buf[..n]);
        self.last_answer = Some(WriteAnswer::Accepted(n));
        Ok(n)
    }

}

// ---------------------------------------------------------------------------
// fmt::Write side (Display)

#[derive(Debug, Clone, PartialEq, Eq, Serialize, Deserialize)]
pub struct FmtPlan {
    /// Bytes accepted before the sink fails; `None` = never fails.
    pub budget: Option<usize>,
    /// After the failure, keep failing (true) or accept again (false).
    pub sticky: bool,
}

pub struct SimFmtSink {
    pub accepted: String,
    budget: Option<usize>,
    sticky: bool,
    pub failed: bool,
    pub failures: u64,
    pub calls: u64,
}

impl SimFmtSink {
    pub fn new(plan: &FmtPlan) -> SimFmtSink {
        SimFmtSink {
            accepted: String::new(),
            budget: plan.budget,
            sticky: plan.sticky,
            failed: false,
            failures: 0,
            calls: 0,
        }
    }
}

impl fmt::Write for SimFmtSink {
    fn write_str(&mut self, s: &str) -> fmt::Result {
        self.calls += 1;
        if self.failed && self.sticky {
            self.failures += 1;
            return Err(fmt::Error);
        }
        match self.budget {
            None => {
                self.accepted.push_str(s);
                Ok(())
            }
            Some(b) if self.failed => {
                // non-sticky: the one failure has happened, accept again
                let _ = b;
                self.accepted.push_str(s);
                Ok(())
            }
            Some(b) => {
                let room = b.saturating_sub(self.accepted.len());
                if s.len() <= room {
                    self.accepted.push_str(s);
                    Ok(())
                } else {
                    let mut cut = room;
                    while cut > 0 && !s.is_char_boundary(cut) {
                        cut -= 1;
                    }
                    self.accepted.push_str(&s[..cut]);
                    self.failed = true;
                    self.failures += 1;
                    Err(fmt::Error)
                }
            }
        }
    }
}
