//! Parser and printer option sets as small integers (replay files store the
//! integer; the mapping is total and fixed).

use lexpr::parse::{Brackets, KeywordSyntax, NilSymbol, Options as ParseOptions, TSymbol};
use lexpr::parse::{CharSyntax, StringSyntax};
use lexpr::print::{BoolSyntax, BytesSyntax, NilSyntax, Options as PrintOptions, VectorSyntax};

pub const N_PARSE: u32 = 8 * 3 * 2 * 2 * 2 * 2 * 2 * 2; // 1536
pub const N_PRINT: u32 = 3 * 4 * 2 * 2 * 3 * 2 * 2; // 576

#[derive(Debug, Clone, Copy, PartialEq, Eq)]
pub struct ParseFields {
    pub kw: u8, // bit0 prefix, bit1 postfix, bit2 octothorpe
    pub nil: u8, // 0 default 1 emptylist 2 special
    pub t: u8, // 0 default 1 true
    pub brackets: u8, // 0 list 1 vector
    pub string: u8, // 0 r6rs 1 elisp
    pub chr: u8, // 0 r6rs 1 elisp
    pub racket: u8,
    pub digit: u8,
}

pub fn parse_fields(mut ix: u32) -> ParseFields {
    ix %= N_PARSE;
    let kw = (ix % 8) as u8;
    ix /= 8;
    let nil = (ix % 3) as u8;
    ix /= 3;
    let t = (ix % 2) as u8;
    ix /= 2;
    let brackets = (ix % 2) as u8;
    ix /= 2;
    let string = (ix % 2) as u8;
    ix /= 2;
    let chr = (ix % 2) as u8;
    ix /= 2;
    let racket = (ix % 2) as u8;
    ix /= 2;
    let digit = (ix % 2) as u8;
    ParseFields { kw, nil, t, brackets, string, chr, racket, digit }
}

pub fn parse_index(f: ParseFields) -> u32 {
    let mut ix = u32::from(f.digit);
    ix = ix * 2 + u32::from(f.racket);
    ix = ix * 2 + u32::from(f.chr);
    ix = ix * 2 + u32::from(f.string);
    ix = ix * 2 + u32::from(f.brackets);
    ix = ix * 2 + u32::from(f.t);
    ix = ix * 3 + u32::from(f.nil);
    ix = ix * 8 + u32::from(f.kw);
    ix
}

pub fn parse_options(ix: u32) -> ParseOptions {
    let f = parse_fields(ix);
    let mut kws = Vec::new();
    if f.kw & 1 != 0 {
        kws.push(KeywordSyntax::ColonPrefix);
    }
    if f.kw & 2 != 0 {
        kws.push(KeywordSyntax::ColonPostfix);
    }
    if f.kw & 4 != 0 {
        kws.push(KeywordSyntax::Octothorpe);
    }
    ParseOptions::new()
        .with_keyword_syntaxes(kws)
        .with_nil_symbol(match f.nil {
            0 => NilSymbol::Default,
            1 => NilSymbol::EmptyList,
            _ => NilSymbol::Special,
        })
        .with_t_symbol(if f.t == 0 { TSymbol::Default } else { TSymbol::True })
        .with_brackets(if f.brackets == 0 { Brackets::List } else { Brackets::Vector })
        .with_string_syntax(if f.string == 0 { StringSyntax::R6RS } else { StringSyntax::Elisp })
        .with_char_syntax(if f.chr == 0 { CharSyntax::R6RS } else { CharSyntax::Elisp })
        .with_racket_hash_percent_symbols(f.racket == 1)
        .with_leading_digit_symbols(f.digit == 1)
}

/// Index of `Options::default()` (octothorpe keywords only).
pub const PARSE_DEFAULT: u32 = 4;

/// Index of `Options::elisp()`.
pub fn parse_elisp_index() -> u32 {
    parse_index(ParseFields {
        kw: 1,
        nil: 1,
        t: 0,
        brackets: 1,
        string: 1,
        chr: 1,
        racket: 0,
        digit: 1,
    })
}

#[derive(Debug, Clone, Copy, PartialEq, Eq)]
pub struct PrintFields {
    pub kw: u8, // 0 octothorpe 1 prefix 2 postfix
    pub nil: u8, // 0 token 1 symbol 2 emptylist 3 false
    pub boolean: u8, // 0 token 1 symbol
    pub vector: u8, // 0 octothorpe 1 brackets
    pub bytes: u8, // 0 r7rs 1 r6rs 2 elisp
    pub string: u8, // 0 r6rs 1 elisp
    pub chr: u8, // 0 r6rs 1 elisp
}

pub fn print_fields(mut ix: u32) -> PrintFields {
    ix %= N_PRINT;
    let kw = (ix % 3) as u8;
    ix /= 3;
    let nil = (ix % 4) as u8;
    ix /= 4;
    let boolean = (ix % 2) as u8;
    ix /= 2;
    let vector = (ix % 2) as u8;
    ix /= 2;
    let bytes = (ix % 3) as u8;
    ix /= 3;
    let string = (ix % 2) as u8;
    ix /= 2;
    let chr = (ix % 2) as u8;
    PrintFields { kw, nil, boolean, vector, bytes, string, chr }
}

pub fn print_index(f: PrintFields) -> u32 {
    let mut ix = u32::from(f.chr);
    ix = ix * 2 + u32::from(f.string);
    ix = ix * 3 + u32::from(f.bytes);
    ix = ix * 2 + u32::from(f.vector);
    ix = ix * 2 + u32::from(f.boolean);
    ix = ix * 4 + u32::from(f.nil);
    ix = ix * 3 + u32::from(f.kw);
    ix
}

/// Index 0 is `print::Options::default()`.
pub const PRINT_DEFAULT: u32 = 0;

pub fn print_elisp_index() -> u32 {
    print_index(PrintFields { kw: 1, nil: 1, boolean: 1, vector: 1, bytes: 2, string: 1, chr: 1 })
}

pub fn print_options(ix: u32) -> PrintOptions {
    let f = print_fields(ix);
    PrintOptions::default()
        .with_keyword_syntax(match f.kw {
            0 => KeywordSyntax::Octothorpe,
            1 => KeywordSyntax::ColonPrefix,
            _ => KeywordSyntax::ColonPostfix,
        })
        .with_nil_syntax(match f.nil {
            0 => NilSyntax::Token,
            1 => NilSyntax::Symbol,
            2 => NilSyntax::EmptyList,
            _ => NilSyntax::False,
        })
        .with_bool_syntax(if f.boolean == 0 { BoolSyntax::Token } else { BoolSyntax::Symbol })
        .with_vector_syntax(if f.vector == 0 { VectorSyntax::Octothorpe } else { VectorSyntax::Brackets })
        .with_bytes_syntax(match f.bytes {
            0 => BytesSyntax::R7RS,
            1 => BytesSyntax::R6RS,
            _ => BytesSyntax::Elisp,
        })
        .with_string_syntax(if f.string == 0 { StringSyntax::R6RS } else { StringSyntax::Elisp })
        .with_char_syntax(if f.chr == 0 { CharSyntax::R6RS } else { CharSyntax::Elisp })
}

pub fn describe_parse(ix: u32) -> String {
    let f = parse_fields(ix);
    format!(
        "kw={}{}{} nil={} t={} brackets={} string={} char={} racket={} digit={}",
        if f.kw & 1 != 0 { ":a" } else { "" },
        if f.kw & 2 != 0 { "a:" } else { "" },
        if f.kw & 4 != 0 { "#:a" } else { "" },
        ["default", "emptylist", "special"][f.nil as usize],
        ["default", "true"][f.t as usize],
        ["list", "vector"][f.brackets as usize],
        ["r6rs", "elisp"][f.string as usize],
        ["r6rs", "elisp"][f.chr as usize],
        f.racket,
        f.digit
    )
}

pub fn describe_print(ix: u32) -> String {
    let f = print_fields(ix);
    format!(
        "kw={} nil={} bool={} vector={} bytes={} string={} char={}",
        ["#:a", ":a", "a:"][f.kw as usize],
        ["token", "symbol", "emptylist", "false"][f.nil as usize],
        ["token", "symbol"][f.boolean as usize],
        ["octothorpe", "brackets"][f.vector as usize],
        ["r7rs", "r6rs", "elisp"][f.bytes as usize],
        ["r6rs", "elisp"][f.string as usize],
        ["r6rs", "elisp"][f.chr as usize],
    )
}

/// Draw an option set, over-weighting the two documented presets.
pub fn draw_parse(rng: &mut crate::prng::Rng) -> u32 {
    match rng.below(10) {
        0..=2 => PARSE_DEFAULT,
        3..=4 => parse_elisp_index(),
        _ => rng.below(u64::from(N_PARSE)) as u32,
    }
}

pub fn draw_print(rng: &mut crate::prng::Rng) -> u32 {
    match rng.below(10) {
        0..=2 => PRINT_DEFAULT,
        3..=4 => print_elisp_index(),
        _ => rng.below(u64::from(N_PRINT)) as u32,
    }
}
