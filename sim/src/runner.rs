//! Orchestration: worker processes, crash attribution, minimisation, replay
//! files, known-findings matching and evidence.

use crate::engine::{self, AnyCase, Found, Tier};
use crate::outcome::{beat, install_panic_hook, op_hang_limit, start_watchdog, Mon, Violation, HANG_EXIT};
use crate::prng::splitmix64;
use crate::shrink;
use serde::{Deserialize, Serialize};
use std::collections::{BTreeMap, BTreeSet};
use std::io::{BufRead, BufReader, Write};
use std::path::{Path, PathBuf};
use std::process::{Command, Stdio};
use std::sync::mpsc;
use std::time::{Duration, Instant};

/// The verification root: `bin/check` exports it (its own parent directory), so
/// that a snapshot of /verif run elsewhere reads and writes its own files.
pub fn verif_root() -> PathBuf {
    std::env::var("VERIF_ROOT").map(PathBuf::from).unwrap_or_else(|_| PathBuf::from("/verif"))
}

/// Where evidence and replay files go; `VERIF_OUT` redirects them when the
/// simulator is pointed at a scratch copy of the repository (sensitivity runs).
pub fn out_root() -> PathBuf {
    std::env::var("VERIF_OUT").map(PathBuf::from).unwrap_or_else(|_| verif_root())
}

#[derive(Debug, Clone, Serialize, Deserialize)]
pub struct Minimised {
    pub property: String,
    pub clause: String,
    pub sig: String,
    pub detail: String,
    pub run_index: u64,
    pub case: AnyCase,
    pub shrink_execs: usize,
    pub original_size: usize,
}

#[derive(Debug, Clone, Default, Serialize, Deserialize)]
pub struct Agg {
    pub runs: u64,
    pub evaluations: u64,
    pub steps: u64,
    pub digest: u64,
    pub counters: BTreeMap<String, u64>,
    pub maxes: BTreeMap<String, u64>,
    pub sets: BTreeMap<String, BTreeSet<u64>>,
    pub tuples: BTreeSet<String>,
    pub samples: Vec<(u64, serde_json::Value)>,
    /// violations per (property, clause, sig): count and smallest run index
    pub seen: BTreeMap<String, (u64, u64)>,
    pub minimised: Vec<Minimised>,
}

impl Agg {
    pub fn merge(&mut self, o: Agg) {
        self.runs += o.runs;
        self.evaluations += o.evaluations;
        self.steps += o.steps;
        self.digest ^= o.digest;
        for (k, v) in o.counters {
            *self.counters.entry(k).or_insert(0) += v;
        }
        for (k, v) in o.maxes {
            let e = self.maxes.entry(k).or_insert(0);
            *e = (*e).max(v);
        }
        for (k, v) in o.sets {
            self.sets.entry(k).or_default().extend(v);
        }
        self.tuples.extend(o.tuples);
        self.samples.extend(o.samples);
        self.samples.sort_by_key(|s| s.0);
        self.samples.truncate(4);
        for (k, (n, ix)) in o.seen {
            let e = self.seen.entry(k).or_insert((0, u64::MAX));
            e.0 += n;
            e.1 = e.1.min(ix);
        }
        self.minimised.extend(o.minimised);
    }
}

fn key_of(v: &Violation) -> String {
    format!("{}|{}|{}", v.property, v.clause, v.sig)
}

fn case_size(c: &AnyCase) -> usize {
    serde_json::to_string(c).map(|s| s.len()).unwrap_or(0)
}

pub fn minimise(found: &Found, run_index: u64, budget: usize) -> Minimised {
    let key = key_of(&found.violation);
    let original_size = case_size(&found.case);
    // Besides the number of candidates, minimisation is bounded by the simulated
    // work it does (steps + bytes of the candidates), so that a case whose every
    // execution is expensive cannot stall a worker. Deterministic, no clock.
    let mut work: u64 = 0;
    let mut tries: u64 = 0;
    let (case, execs) = shrink::shrink(
        found.case.clone(),
        |c| c.candidates(),
        |c| {
            if work > 40_000_000 {
                return false;
            }
            tries += 1;
            beat();
            if tries % 16 == 0 {
                // heartbeat for the parent's hang backstop
                let mut o = std::io::stdout().lock();
                let _ = writeln!(o, "H");
                let _ = o.flush();
            }
            let mut mon = Mon::new(false);
            c.check(&mut mon);
            // an error position on a slice costs a rescan of the input, so weigh steps by the text length
            let w = c.weight();
            work += mon.steps * (1 + w / 64) + mon.evaluations * w;
            mon.violations.iter().any(|v| key_of(v) == key)
        },
        |c| serde_json::to_string(c).unwrap_or_default(),
        budget,
    );
    // detail of the minimised case
    let mut mon = Mon::new(false);
    case.check(&mut mon);
    let detail = mon
        .violations
        .iter()
        .find(|v| key_of(v) == key)
        .map(|v| v.detail.clone())
        .unwrap_or_else(|| found.violation.detail.clone());
    Minimised {
        property: found.violation.property.to_string(),
        clause: found.violation.clause.to_string(),
        sig: found.violation.sig.clone(),
        detail,
        run_index,
        case,
        shrink_execs: execs,
        original_size,
    }
}

/// Execute run indices `start, start+stride, ...` below `end` in this process.
/// `progress` is called with each index before it runs.
#[allow(clippy::too_many_arguments)]
pub fn run_range(
    prop: &str,
    tier: Tier,
    seed: u64,
    start: u64,
    end: u64,
    stride: u64,
    skip: &[u64],
    shrink_here: bool,
    already_minimised: &mut BTreeSet<String>,
    crash_file: Option<PathBuf>,
    mut progress: impl FnMut(u64),
) -> Agg {
    install_panic_hook();
    let slow_ms: Option<u64> = std::env::var("SIMCTL_SLOW_MS").ok().and_then(|s| s.parse().ok());
    let mut agg = Agg::default();
    let mut per_key_min: BTreeMap<String, (u64, Found)> = BTreeMap::new();
    let mut i = start;
    while i < end {
        if skip.contains(&i) {
            i += stride;
            continue;
        }
        progress(i);
        beat();
        let mut mon = Mon::new(false);
        mon.crash_file = crash_file.clone();
        let mut found = Vec::new();
        let t_run = Instant::now();
        engine::run_index(prop, tier, seed, i, &mut mon, &mut found);
        if let Some(ms) = slow_ms {
            // diagnostics only (never part of a verdict)
            let el = t_run.elapsed().as_millis() as u64;
            if el >= ms {
                eprintln!("slow run {} of {}: {} ms, {} executions, {} steps", i, prop, el, mon.evaluations, mon.steps);
            }
        }
        agg.runs += 1;
        agg.evaluations += mon.evaluations;
        agg.steps += mon.steps;
        agg.digest ^= splitmix64(mon.digest ^ i.wrapping_mul(0x9E37_79B9_7F4A_7C15));
        for (k, v) in &mon.counters {
            *agg.counters.entry((*k).to_string()).or_insert(0) += v;
        }
        for (k, v) in &mon.dyn_counters {
            *agg.counters.entry(k.clone()).or_insert(0) += v;
        }
        for (k, v) in &mon.maxes {
            let e = agg.maxes.entry((*k).to_string()).or_insert(0);
            *e = (*e).max(*v);
        }
        for (k, v) in &mon.sets {
            agg.sets.entry((*k).to_string()).or_default().extend(v.iter().copied());
        }
        agg.tuples.extend(mon.tuples.iter().cloned());
        for s in mon.samples.drain(..) {
            if agg.samples.len() < 4 {
                agg.samples.push((i, s));
            }
        }
        for f in found {
            let k = key_of(&f.violation);
            let e = agg.seen.entry(k.clone()).or_insert((0, u64::MAX));
            e.0 += 1;
            e.1 = e.1.min(i);
            // only this check's own property is minimised and reported; what the
            // monitors see for other properties is counted above and left to their checks
            if f.violation.property != prop {
                continue;
            }
            // keep the smallest case per key from the earliest run
            match per_key_min.get(&k) {
                Some((ix, old)) if *ix < i || (*ix == i && case_size(&old.case) <= case_size(&f.case)) => {}
                _ => {
                    per_key_min.insert(k, (i, f));
                }
            }
        }
        i += stride;
    }
    // minimise (bounded number of keys per worker)
    for (k, (ix, f)) in per_key_min.into_iter() {
        // a signature is minimised once per worker (a broken tree raises the same
        // ones in every segment), and at most 24 of them
        if already_minimised.contains(&k) {
            continue;
        }
        if shrink_here && already_minimised.len() < 12 {
            already_minimised.insert(k.clone());
            let t_min = Instant::now();
            let m = minimise(&f, ix, 800);
            if slow_ms.is_some() {
                eprintln!("minimised {} in {} ms ({} execs)", k, t_min.elapsed().as_millis(), m.shrink_execs);
            }
            agg.minimised.push(m);
        } else if !shrink_here {
            let original_size = case_size(&f.case);
            agg.minimised.push(Minimised {
                property: f.violation.property.to_string(),
                clause: f.violation.clause.to_string(),
                sig: f.violation.sig.clone(),
                detail: f.violation.detail.clone(),
                run_index: ix,
                case: f.case,
                shrink_execs: 0,
                original_size,
            });
        }
    }
    agg
}

// ---------------------------------------------------------------------------
// parent side

enum Msg {
    Progress(usize, u64),
    /// A finished segment and the index the worker continues from.
    Result(usize, Box<Agg>, u64),
    Done(usize),
    /// The worker is busy minimising; not stuck.
    Heartbeat(usize),
    /// The worker's stdout reached end of file: it has exited or is about to.
    Closed(usize),
}

struct WorkerSlot {
    skip: Vec<u64>,
    child: std::process::Child,
    last_index: Option<u64>,
    last_progress: Instant,
    got_result: bool,
    retired: bool,
    hung: bool,
    resume_from: u64,
}

#[allow(clippy::too_many_arguments)]
fn spawn_worker(exe: &Path, prop: &str, tier: Tier, seed: u64, start: u64, end: u64, stride: u64, skip: &[u64], slot: usize, tx: mpsc::Sender<Msg>) -> std::io::Result<std::process::Child> {
    let mut child = Command::new(exe)
        .arg("worker")
        .arg(prop)
        .arg(if tier == Tier::Quick { "quick" } else { "thorough" })
        .arg(seed.to_string())
        .arg(start.to_string())
        .arg(end.to_string())
        .arg(stride.to_string())
        .arg(skip.iter().map(|i| i.to_string()).collect::<Vec<_>>().join(","))
        .stdin(Stdio::null())
        .stdout(Stdio::piped())
        .stderr(Stdio::null())
        .spawn()?;
    let out = child.stdout.take().unwrap();
    std::thread::spawn(move || {
        let rd = BufReader::new(out);
        for line in rd.lines() {
            let Ok(line) = line else { break };
            if let Some(rest) = line.strip_prefix("B ") {
                if let Ok(i) = rest.trim().parse::<u64>() {
                    let _ = tx.send(Msg::Progress(slot, i));
                }
            } else if let Some(rest) = line.strip_prefix("R ") {
                let (next, json) = rest.split_once(' ').unwrap_or(("0", rest));
                match serde_json::from_str::<Agg>(json) {
                    Ok(a) => {
                        let _ = tx.send(Msg::Result(slot, Box::new(a), next.parse().unwrap_or(0)));
                    }
                    Err(e) => eprintln!("harness error: cannot read the result of worker {}: {}", slot, e),
                }
            } else if line == "D" {
                let _ = tx.send(Msg::Done(slot));
            } else if line == "H" {
                let _ = tx.send(Msg::Heartbeat(slot));
            }
        }
        let _ = tx.send(Msg::Closed(slot));
    });
    Ok(child)
}

#[cfg(unix)]
fn exit_signal(st: &std::process::ExitStatus) -> Option<i32> {
    use std::os::unix::process::ExitStatusExt;
    st.signal()
}

pub struct Crash {
    pub run_index: u64,
    pub how: String,
}

/// Run `count` indices over `workers` processes. Crashes and hangs are
/// attributed to a run index by the progress protocol.
pub fn run_batch(exe: &Path, prop: &str, tier: Tier, seed: u64, count: u64, workers: u64) -> Result<(Agg, Vec<Crash>), String> {
    let (tx, rx) = mpsc::channel::<Msg>();
    let mut slots: Vec<WorkerSlot> = Vec::new();
    for w in 0..workers {
        let child = spawn_worker(exe, prop, tier, seed, w, count, workers, &[], w as usize, tx.clone()).map_err(|e| format!("cannot spawn worker: {}", e))?;
        slots.push(WorkerSlot { skip: vec![], child, last_index: None, last_progress: Instant::now(), got_result: false, retired: false, hung: false, resume_from: w });
    }
    let mut agg = Agg::default();
    let mut crashes = Vec::new();
    let mut live = slots.len();
    let hang_limit = hang_limit();
    while live > 0 {
        let mut closed: Option<usize> = None;
        match rx.recv_timeout(Duration::from_millis(500)) {
            Ok(Msg::Progress(s, i)) => {
                slots[s].last_index = Some(i);
                slots[s].last_progress = Instant::now();
            }
            Ok(Msg::Result(s, a, next)) => {
                agg.merge(*a);
                slots[s].resume_from = next;
                slots[s].last_progress = Instant::now();
            }
            Ok(Msg::Done(s)) => slots[s].got_result = true,
            Ok(Msg::Heartbeat(s)) => slots[s].last_progress = Instant::now(),
            Ok(Msg::Closed(s)) => closed = Some(s),
            Err(mpsc::RecvTimeoutError::Timeout) => {
                // hang backstop: the only place wall time is consulted
                for s in 0..slots.len() {
                    if !slots[s].retired && !slots[s].got_result && slots[s].last_progress.elapsed() > hang_limit {
                        let _ = slots[s].child.kill();
                        slots[s].hung = true;
                    }
                }
            }
            Err(mpsc::RecvTimeoutError::Disconnected) => break,
        }
        if let Some(s) = closed {
            // messages from one worker arrive in order, so its result (if any)
            // has been merged by now
            let st = slots[s].child.wait().map_err(|e| e.to_string())?;
            if slots[s].got_result && st.success() {
                slots[s].retired = true;
                live -= 1;
            } else {
                if st.code() == Some(HANG_EXIT) {
                    slots[s].hung = true;
                }
                let how = if st.code() == Some(HANG_EXIT) {
                    format!("no API call started for {} s (in-process hang backstop)", op_hang_limit().as_secs())
                } else if slots[s].hung {
                    format!("no progress for {} s (hang backstop)", hang_limit.as_secs())
                } else {
                    match exit_signal(&st) {
                        Some(sig) => format!("worker killed by signal {}", sig),
                        None => format!("worker exited with status {:?} without a result", st.code()),
                    }
                };
                if !slots[s].hung && exit_signal(&st).is_none() {
                    return Err(format!("worker {} failed in the harness itself ({}); last run index {:?}", s, how, slots[s].last_index));
                }
                if crashes.len() >= 8 {
                    // enough process deaths to report; the batch is cut short
                    // (the evidence says so) instead of re-running shares for ever
                    if let Some(i) = slots[s].last_index {
                        crashes.push(Crash { run_index: i, how });
                    }
                    for sl in slots.iter_mut() {
                        let _ = sl.child.kill();
                        let _ = sl.child.wait();
                    }
                    agg.counters.insert("batch_cut_short_after_process_deaths".into(), crashes.len() as u64);
                    return Ok((agg, crashes));
                }
                match slots[s].last_index {
                    Some(i) => {
                        crashes.push(Crash { run_index: i, how });
                        restart(exe, prop, tier, seed, count, workers, s, i, &mut slots, &tx)?;
                    }
                    None => return Err(format!("worker {} died before its first run: {}", s, how)),
                }
            }
        }
    }
    Ok((agg, crashes))
}

#[allow(clippy::too_many_arguments)]
fn restart(exe: &Path, prop: &str, tier: Tier, seed: u64, count: u64, workers: u64, s: usize, after: u64, slots: &mut [WorkerSlot], tx: &mpsc::Sender<Msg>) -> Result<(), String> {
    // The dead worker's unfinished segment never arrived, so the worker's share
    // is resumed from the start of that segment, skipping every index that has
    // killed a worker so far. Totals therefore stay exact and independent of
    // where the crash happened.
    slots[s].skip.push(after);
    let skip = slots[s].skip.clone();
    let child = spawn_worker(exe, prop, tier, seed, slots[s].resume_from, count, workers, &skip, s, tx.clone()).map_err(|e| e.to_string())?;
    slots[s].child = child;
    slots[s].last_index = None;
    slots[s].last_progress = Instant::now();
    slots[s].got_result = false;
    slots[s].hung = false;
    Ok(())
}

// ---------------------------------------------------------------------------
// known findings

#[derive(Debug, Clone, Serialize, Deserialize)]
pub struct KnownEntry {
    pub property: String,
    #[serde(default)]
    pub clause: String,
    /// Exact signature of the minimised violation (for status "known").
    #[serde(default)]
    pub signature: String,
    /// "known" suppresses exactly this signature; "fixed" suppresses nothing.
    pub status: String,
    #[serde(default)]
    pub commit: Option<String>,
    pub what: String,
}

pub fn load_known() -> Result<Vec<KnownEntry>, String> {
    let p = verif_root().join("known_findings.json");
    if !p.exists() {
        return Ok(vec![]);
    }
    let s = std::fs::read_to_string(&p).map_err(|e| e.to_string())?;
    serde_json::from_str(&s).map_err(|e| format!("known_findings.json: {}", e))
}

// ---------------------------------------------------------------------------
// replay files

#[derive(Debug, Clone, Serialize, Deserialize)]
pub struct ReplayFile {
    pub property: String,
    pub clause: String,
    pub signature: String,
    pub detail: String,
    pub seed: u64,
    pub run_index: u64,
    pub tier: String,
    pub engine: String,
    pub shrink_execs: usize,
    pub original_case_bytes: usize,
    /// True when the violation is the death of the process (stack overflow,
    /// abort): replay runs the case in a child process.
    pub process_death: bool,
    pub case: AnyCase,
    pub event_log: Vec<String>,
}

pub fn write_replay(m: &Minimised, seed: u64, tier: Tier, process_death: bool) -> Result<PathBuf, String> {
    let dir = std::env::var("VERIF_REPLAY_OUT").map(PathBuf::from).unwrap_or_else(|_| out_root()).join("replays").join(&m.property);
    std::fs::create_dir_all(&dir).map_err(|e| e.to_string())?;
    let mut mon = Mon::new(true);
    if !process_death {
        install_panic_hook();
        m.case.check(&mut mon);
    }
    let rf = ReplayFile {
        property: m.property.clone(),
        clause: m.clause.clone(),
        signature: m.sig.clone(),
        detail: m.detail.clone(),
        seed,
        run_index: m.run_index,
        tier: if tier == Tier::Quick { "quick".into() } else { "thorough".into() },
        engine: m.case.engine_name().to_string(),
        shrink_execs: m.shrink_execs,
        original_case_bytes: m.original_size,
        process_death,
        case: m.case.clone(),
        event_log: mon.log,
    };
    let body = serde_json::to_string_pretty(&rf).map_err(|e| e.to_string())?;
    let digest = crate::prng::fnv(format!("{}|{}|{}", m.property, m.clause, m.sig).as_bytes());
    let path = dir.join(format!("{:016x}.json", digest));
    std::fs::write(&path, body).map_err(|e| e.to_string())?;
    Ok(path)
}

/// Exit status: 0 no violation, 1 violation reproduced, 2 harness error.
pub fn replay(exe: &Path, path: &Path) -> i32 {
    let s = match std::fs::read_to_string(path) {
        Ok(s) => s,
        Err(e) => {
            eprintln!("cannot read {}: {}", path.display(), e);
            return 2;
        }
    };
    let rf: ReplayFile = match serde_json::from_str(&s) {
        Ok(r) => r,
        Err(e) => {
            eprintln!("bad replay file {}: {}", path.display(), e);
            return 2;
        }
    };
    if rf.process_death {
        let expect_hang = rf.signature.contains("does not return");
        let limit = if expect_hang { Duration::from_secs(10) } else { hang_limit() };
        let end = run_child(Command::new(exe).arg("replay-case").arg(path), limit);
        return match (end, expect_hang) {
            (ChildEnd::Signaled(sig), false) => {
                println!("VIOLATION property={} replay={}", rf.property, path.display());
                println!("  {} {}: process killed by signal {}", rf.clause, rf.signature, sig);
                1
            }
            (ChildEnd::TimedOut, true) => {
                println!("VIOLATION property={} replay={}", rf.property, path.display());
                println!("  {} {}: the case did not finish within {} s (a healthy case takes milliseconds)", rf.clause, rf.signature, limit.as_secs());
                1
            }
            (other, _) => {
                eprintln!("replay did not reproduce: child ended with {:?}", other);
                2
            }
        };
    }
    install_panic_hook();
    let key = format!("{}|{}|{}", rf.property, rf.clause, rf.signature);
    let mut mon = Mon::new(true);
    rf.case.check(&mut mon);
    match mon.violations.iter().find(|v| key_of(v) == key) {
        Some(v) => {
            println!("VIOLATION property={} replay={}", rf.property, path.display());
            println!("  {} {}", v.clause, v.sig);
            println!("  {}", v.detail);
            1
        }
        None => {
            if let Some(v) = mon.violations.first() {
                eprintln!("replay raised a different violation: {} {} {}", v.property, v.clause, v.sig);
            }
            eprintln!("replay did not reproduce {}", key);
            2
        }
    }
}

/// Child mode: execute a case file and exit 0/1 (or die).
pub fn replay_case(path: &Path) -> i32 {
    install_panic_hook();
    start_watchdog(op_hang_limit());
    let s = std::fs::read_to_string(path).unwrap_or_default();
    let case: AnyCase = match serde_json::from_str::<ReplayFile>(&s) {
        Ok(rf) => rf.case,
        Err(_) => match serde_json::from_str::<AnyCase>(&s) {
            Ok(c) => c,
            Err(e) => {
                eprintln!("bad case file: {}", e);
                return 2;
            }
        },
    };
    let mut mon = Mon::new(false);
    case.check(&mut mon);
    if mon.violations.is_empty() {
        0
    } else {
        1
    }
}

/// Minimise a case whose failure is the death of the process, one child per candidate.
#[derive(Debug, Clone, Copy, PartialEq, Eq)]
pub enum ChildEnd {
    Exited(i32),
    Signaled(i32),
    /// Killed by us after the time limit (the hang backstop).
    TimedOut,
    Failed,
}

/// Run a child to completion or kill it after `limit`.
pub fn run_child(cmd: &mut Command, limit: Duration) -> ChildEnd {
    let mut child = match cmd.stdin(Stdio::null()).stdout(Stdio::null()).stderr(Stdio::null()).spawn() {
        Ok(c) => c,
        Err(_) => return ChildEnd::Failed,
    };
    let t0 = Instant::now();
    loop {
        match child.try_wait() {
            Ok(Some(st)) => {
                return match exit_signal(&st) {
                    Some(s) => ChildEnd::Signaled(s),
                    // stopped by its own watchdog: the same as running into our limit
                    None if st.code() == Some(HANG_EXIT) => ChildEnd::TimedOut,
                    None => ChildEnd::Exited(st.code().unwrap_or(-1)),
                }
            }
            Ok(None) => {
                if t0.elapsed() > limit {
                    let _ = child.kill();
                    let _ = child.wait();
                    return ChildEnd::TimedOut;
                }
                std::thread::sleep(Duration::from_millis(if t0.elapsed() < Duration::from_millis(200) { 2 } else { 50 }));
            }
            Err(_) => return ChildEnd::Failed,
        }
    }
}

pub fn hang_limit() -> Duration {
    Duration::from_secs(std::env::var("VERIF_HANG_S").ok().and_then(|s| s.parse().ok()).unwrap_or(180))
}

/// Minimise a case whose failure is the death (or the hang) of the process, one
/// child per candidate. A candidate counts only if it fails the same way.
fn minimise_crash(exe: &Path, case: AnyCase, scratch: &Path, hang: bool) -> (AnyCase, usize) {
    let dies = |c: &AnyCase| -> bool {
        let f = scratch.join("cand.json");
        if std::fs::write(&f, serde_json::to_string(c).unwrap_or_default()).is_err() {
            return false;
        }
        // a healthy case runs in milliseconds: seconds without an exit is a hang
        let end = run_child(Command::new(exe).arg("replay-case").arg(&f), Duration::from_secs(if hang { 3 } else { 20 }));
        match end {
            ChildEnd::Signaled(_) => !hang,
            ChildEnd::TimedOut => hang,
            _ => false,
        }
    };
    shrink::shrink(case, |c| c.candidates(), dies, |c| serde_json::to_string(c).unwrap_or_default(), if hang { 40 } else { 250 })
}

// ---------------------------------------------------------------------------
// the check command

fn level_of(prop: &str) -> &'static str {
    match prop {
        "C06" | "C07" | "C19" => "fault_enumeration",
        _ => "exploration",
    }
}

fn rule_of(prop: &str) -> &'static str {
    match prop {
        "C06" => "Scenarios (options, API, text from the layout/datum-grammar/soup/mutation/tiny families, adapter, chunking, Interrupted schedule) are drawn from VERIF_SEED; per scenario the fault dimension is enumerated: a hard read error at every byte offset 0..=len and an early end of stream at every offset 0..len (64 sampled offsets for inputs over 512 bytes). evaluations counts every execution of the library (stream runs and slice/str reference runs). A case is non-trivial when a fault actually fired during a call or a benign plan produced a short read or an Interrupted result; distinct_nontrivial counts distinct tuples (fault class, lexical state at the fault offset, error kind, adapter, API, outcome class).",
        "C07" => "Scenarios (value, printer options, entry point, adapter) are drawn from VERIF_SEED; per scenario: accept-at-most-k for k=1..24, random k per call, BufWriter/dyn adapters, Interrupted schedules, a hard write error at every output offset 0..=len, zero-length acceptance from every offset 0..len on, and for Display a fmt sink failing after every byte budget. evaluations counts print calls executed. Non-trivial: a sink fault fired, or a short write or Interrupted happened; distinct_nontrivial counts distinct tuples (emission class at the fault offset, fault kind, adapter, entry point, outcome).",
        "C19" => "Well-formed single-datum texts (checked by the parser itself) are drawn from the datum grammar and the printer layout; for every text the peer-close point is enumerated over every proper prefix length, on slice, str (when valid UTF-8) and a stream that ends there; plus streaming-receiver histories and location/conversion monitors on malformed input with injected read errors. evaluations counts parser executions. Non-trivial: the prefix ends inside a token or structure (anything but a clean datum boundary); distinct_nontrivial counts distinct tuples (lexical state at the cut, source, outcome class) plus fault tuples of the monitor runs.",
        "C12" => "Call histories on one long-lived parser are drawn from VERIF_SEED: W-queue (printed values, trivia at every token boundary, FIFO model checked op by op; one run in four with transient read faults), W-trivia (same tokens, two trivia draws), W-any (arbitrary text; termination, progress and agreement of the four iteration modes). evaluations counts parser executions (histories). Non-trivial: a history with at least two operations after a first error, or a fault fired inside a history, or a queue run with mixed operations; distinct_nontrivial counts distinct tuples (workload, source, history-shape class, fault kind, lexical state, outcome class).",
        "C03" => "Robustness histories (every input of one and two bytes once, every input of three bytes once in the thorough tier and every sixteenth block of 256 of them in the quick tier - set_sizes counts them - and arbitrary bytes from soups, mutations, tiny strings and layouts; all 1536 option sets; str, slice and stream sources with chunking, Interrupted, transient and sticky errors and early end-of-stream-then-more-data), pathological nesting up to 10^6 levels of every opener and mixtures, flat lists and vectors of up to 400 000 elements (closed, cut short, ending in an error), and error storms followed by a sentinel and a 100-level probe. evaluations counts histories executed. Non-trivial: at least two operations after a first error, a fired fault, nesting beyond the limit, or a conclusive storm; distinct_nontrivial counts distinct tuples.",
        "C17" => "W-utf8 texts (every class of 1-4 byte sequence, valid and ill-formed, inside symbols, strings, characters, comments and keywords, with escapes adjacent, long tokens) run as histories on str, slice and stream sources with read faults aimed inside multi-byte sequences; every returned str is re-validated and the five unchecked-conversion sites carry an assertion hook. evaluations counts histories executed. Non-trivial: the text contains an ill-formed or multi-byte sequence and the history continued after an error or a fault fired; distinct_nontrivial counts distinct tuples.",
        _ => "",
    }
}

fn components() -> serde_json::Value {
    serde_json::json!({
        "real": ["lexpr (parser, printer, Value/Datum) built from /repo working tree with feature verif-hooks", "itoa, ryu", if cfg!(feature = "serde-client") { "serde-lexpr (from_reader_custom and its error conversion in E-STREAM, to_writer/to_writer_custom in E-SINK) built from /repo working tree" } else { "serde-lexpr: not part of this build" }, "std::io::Bytes, BufReader, Chain, BufWriter, Write::write_all, Write::write_fmt, fmt machinery"],
        "stub": ["SimReader (io::Read endpoint)", "SimWriter (io::Write endpoint)", "SimFmtSink (fmt::Write endpoint)"],
        "not_simulated": ["threads, clocks, timers, network, allocation failure: lexpr has none of them (DESIGN.md section 2)"]
    })
}

pub fn check(exe: &Path, prop: &str, tier: Tier) -> i32 {
    let seed: u64 = std::env::var("VERIF_SEED").ok().and_then(|s| s.parse().ok()).unwrap_or(0);
    let workers: u64 = std::env::var("VERIF_WORKERS").ok().and_then(|s| s.parse().ok()).unwrap_or_else(|| std::thread::available_parallelism().map(|n| n.get() as u64).unwrap_or(4).min(16));
    let count: u64 = std::env::var("VERIF_RUNS").ok().and_then(|s| s.parse().ok()).unwrap_or_else(|| engine::run_count(prop, tier));
    println!("simctl: property={} tier={:?} VERIF_SEED={} runs={} workers={}", prop, tier, seed, count, workers);
    let t0 = Instant::now();
    let (agg, crashes) = match run_batch(exe, prop, tier, seed, count, workers) {
        Ok(x) => x,
        Err(e) => {
            eprintln!("harness error: {}", e);
            return 2;
        }
    };
    let known = match load_known() {
        Ok(k) => k,
        Err(e) => {
            eprintln!("harness error: {}", e);
            return 2;
        }
    };
    let scratch = std::env::temp_dir().join(format!("simctl-{}-{}", prop, std::process::id()));
    let _ = std::fs::create_dir_all(&scratch);

    // choose, per key, the minimised case from the earliest run
    let mut best: BTreeMap<String, Minimised> = BTreeMap::new();
    for m in &agg.minimised {
        let k = format!("{}|{}|{}", m.property, m.clause, m.sig);
        match best.get(&k) {
            Some(b) if (case_size(&b.case), b.run_index) <= (case_size(&m.case), m.run_index) => {}
            _ => {
                best.insert(k, m.clone());
            }
        }
    }
    let mut violations: Vec<(Minimised, bool)> = best.into_values().filter(|m| m.property == prop).map(|m| (m, false)).collect();
    let other_props: BTreeMap<String, u64> = agg.seen.iter().filter(|(k, _)| !k.starts_with(prop)).map(|(k, v)| (k.clone(), v.0)).collect();

    // process deaths: attribute to a case, minimise in child processes
    let mut hangs_handled = 0;
    for c in &crashes {
        let was_hang = c.how.contains("hang backstop");
        if was_hang {
            // every hung worker costs a backstop period to re-examine; one is enough
            hangs_handled += 1;
            if hangs_handled > 1 {
                continue;
            }
        }
        let crash_file = scratch.join("crash-case.json");
        let _ = std::fs::remove_file(&crash_file);
        let mut cmd = Command::new(exe);
        cmd.arg("one").arg(prop).arg(if tier == Tier::Quick { "quick" } else { "thorough" }).arg(seed.to_string()).arg(c.run_index.to_string()).arg(&crash_file);
        let end = run_child(&mut cmd, if was_hang { Duration::from_secs(60) } else { hang_limit() });
        let case: Option<AnyCase> = std::fs::read_to_string(&crash_file).ok().and_then(|s| serde_json::from_str(&s).ok());
        match (end, case) {
            (ChildEnd::Signaled(sig_no), Some(case)) => {
                let original_size = case_size(&case);
                let (min, execs) = minimise_crash(exe, case, &scratch, false);
                violations.push((
                    Minimised {
                        property: "C03".into(),
                        clause: "O3.1".into(),
                        sig: format!("process death (signal {}): stack overflow or abort", sig_no),
                        detail: format!("run {} of {}: {}; re-executed alone the process died again (signal {})", c.run_index, prop, c.how, sig_no),
                        run_index: c.run_index,
                        case: min,
                        shrink_execs: execs,
                        original_size,
                    },
                    true,
                ));
            }
            (ChildEnd::TimedOut, Some(case)) => {
                let original_size = case_size(&case);
                let (min, execs) = minimise_crash(exe, case, &scratch, true);
                violations.push((
                    Minimised {
                        property: "C03".into(),
                        clause: "O3.1".into(),
                        sig: "a call does not return (no read, no write, no result: hang backstop)".into(),
                        detail: format!("run {} of {}: {}; re-executed alone the case in flight did not finish within {} s either", c.run_index, prop, c.how, hang_limit().as_secs()),
                        run_index: c.run_index,
                        case: min,
                        shrink_execs: execs,
                        original_size,
                    },
                    true,
                ));
            }
            _ => {
                eprintln!("harness error: run {} killed its worker ({}) but does not reproduce alone", c.run_index, c.how);
                return 2;
            }
        }
    }
    let _ = std::fs::remove_dir_all(&scratch);
    // one report per signature: the smallest case
    {
        let mut by_sig: BTreeMap<String, (Minimised, bool)> = BTreeMap::new();
        for (m, d) in violations.drain(..) {
            let k = format!("{}|{}|{}", m.property, m.clause, m.sig);
            match by_sig.get(&k) {
                Some((b, _)) if (case_size(&b.case), b.run_index) <= (case_size(&m.case), m.run_index) => {}
                _ => {
                    by_sig.insert(k, (m, d));
                }
            }
        }
        violations = by_sig.into_values().collect();
    }

    // report
    let mut exit = 0;
    let mut n_viol = 0i64;
    let mut known_matched = Vec::new();
    for (m, death) in &violations {
        if m.property != prop {
            continue;
        }
        let is_known = known.iter().find(|k| k.status == "known" && k.property == m.property && (k.clause.is_empty() || k.clause == m.clause) && k.signature == m.sig);
        if let Some(k) = is_known {
            println!("KNOWN-FINDING: property={} {} [{} {}]", m.property, k.what, m.clause, m.sig);
            known_matched.push(serde_json::json!({"clause": m.clause, "signature": m.sig, "what": k.what}));
            continue;
        }
        let path = match write_replay(m, seed, tier, *death) {
            Ok(p) => p,
            Err(e) => {
                eprintln!("harness error: cannot write replay: {}", e);
                return 2;
            }
        };
        n_viol += 1;
        exit = 1;
        println!("VIOLATION property={} replay={}", m.property, path.display());
        println!("  clause={} signature={}", m.clause, m.sig);
        println!("  {}", m.detail);
    }
    let wall = t0.elapsed().as_secs_f64();

    // evidence
    let zero_probes: Vec<String> = expected_probes(prop).iter().filter(|p| agg.counters.get(**p).copied().unwrap_or(0) == 0).map(|p| (*p).to_string()).collect();
    let mut samples: Vec<serde_json::Value> = agg.samples.iter().map(|(_, s)| s.clone()).collect();
    if samples.is_empty() {
        samples.push(serde_json::json!({"note": "no sample recorded"}));
    }
    let sets: BTreeMap<String, usize> = agg.sets.iter().map(|(k, v)| (k.clone(), v.len())).collect();
    let runs_per_hour = if wall > 0.0 { (agg.runs as f64 / wall * 3600.0) as u64 } else { 0 };
    let hits = {
        // hook counters are per process; workers report them through counters
        agg.counters.iter().filter(|(k, _)| k.starts_with("hook.site")).map(|(k, v)| (k.clone(), *v)).collect::<BTreeMap<_, _>>()
    };
    let evidence = serde_json::json!({
        "property_id": prop,
        "tier": if tier == Tier::Quick { "quick" } else { "thorough" },
        "seed": seed,
        "level": level_of(prop),
        "coverage": {
            "evaluations": agg.evaluations,
            "distinct_nontrivial": agg.tuples.len(),
            "rule": rule_of(prop),
            "samples": samples,
            "simulated_runs": agg.runs,
            "simulated_runs_per_hour": runs_per_hour,
            "simulated_steps": agg.steps,
            "simulated_time": "none: nothing in lexpr reads a clock; steps are read/write/API calls",
            "counters": agg.counters,
            "maxima": agg.maxes,
            "set_sizes": sets,
            "zero_probes": zero_probes,
            "hook_site_hits": hits,
            "determinism_digest": format!("{:016x}", agg.digest),
            "workers": workers,
            "process_deaths": crashes.iter().map(|c| serde_json::json!({"run": c.run_index, "how": c.how})).collect::<Vec<_>>(),
            "violation_signatures_seen": agg.seen.iter().filter(|(k, _)| k.starts_with(prop)).map(|(k, v)| serde_json::json!({"key": k, "count": v.0, "first_run": v.1})).collect::<Vec<_>>(),
            "other_property_signatures_seen": other_props,
            "known_findings_matched": known_matched,
            "components": components(),
            "no_fast_float_build": std::env::var("VERIF_EXTRA_EVIDENCE").ok().and_then(|p| std::fs::read_to_string(p).ok()).and_then(|s| serde_json::from_str::<serde_json::Value>(&s).ok()).map(|v| serde_json::json!({"evaluations": v["coverage"]["evaluations"], "simulated_runs": v["coverage"]["simulated_runs"], "violations": v["violations"], "hook_site_hits": v["coverage"]["hook_site_hits"], "wall_s": v["wall_s"], "determinism_digest": v["coverage"]["determinism_digest"]})),
            "build_profile": "release, opt-level 2, debug-assertions on, overflow-checks on, panic=unwind; worker main thread stack 2 MiB"
        },
        "assumptions": assumptions_of(prop),
        "wall_s": wall,
        "violations": n_viol
    });
    let evp = out_root().join("evidence").join(format!("{}.json", prop));
    let _ = std::fs::create_dir_all(evp.parent().unwrap());
    if let Err(e) = std::fs::write(&evp, serde_json::to_string_pretty(&evidence).unwrap()) {
        eprintln!("harness error: cannot write evidence: {}", e);
        return 2;
    }
    println!(
        "simctl: {} runs, {} executions, {} steps, {} distinct non-trivial tuples, {:.1} s, digest {:016x}, violations {}",
        agg.runs,
        agg.evaluations,
        agg.steps,
        agg.tuples.len(),
        wall,
        agg.digest,
        n_viol
    );
    if !zero_probes.is_empty() {
        println!("simctl: warning: probes at zero: {:?}", zero_probes);
    }
    exit
}

fn assumptions_of(prop: &str) -> Vec<&'static str> {
    let mut v = vec![
        "scenarios are sampled from VERIF_SEED; only the fault-offset dimension inside a scenario is enumerated completely",
        "everything the environment can do to lexpr is a sequence of Read::read / Write::write / flush / write_str results (DESIGN.md 2.1)",
    ];
    match prop {
        "C06" => v.push("the reference is lexpr's own slice reader on the same bytes; a defect common to all three readers is invisible"),
        "C07" => v.push("the reference text is what lexpr::to_vec(_custom) gives for the same value (to_string is compared with it under C17)"),
        "C12" => v.push("what a printed value denotes is defined by parsing it alone with the same options; values that do not read back alone are dropped (counted)"),
        "C19" => v.push("the precondition 'parses as a single datum' is established by the parser under test"),
        _ => {}
    }
    v
}

fn expected_probes(prop: &str) -> Vec<&'static str> {
    match prop {
        "C06" => vec![
            "c06.hard_fired", "c06.eof_fired", "read_fault_payload.custom", "read_fault_payload.bare", "read_fault_payload.raw_os_error", "c06.history_differential_runs", "c06.long_token_scenarios", "c06.outcome_A", "c06.outcome_B", "c06.benign_runs", "c06.str_vs_slice", "read.short_reads", "read.interrupts_fired",
            "fault_at.between", "fault_at.comment", "fault_at.string-body", "fault_at.string-escape", "fault_at.utf8-tail", "fault_at.after-hash", "fault_at.in-token",
            "fault_at.token-end", "fault_at.after-open", "fault_at.after-close", "fault_at.after-quote", "fault_at.after-dot", "fault_at.at-end",
        ],
        "C07" => vec![
            "c07.hard_fired", "c07.zero_fired", "write_fault_payload.custom", "write_fault_payload.bare", "write_fault_payload.raw_os_error", "c07.big_value_scenarios", "c07.interrupt_runs", "c07.benign_runs", "c07.twin_runs", "c07.passthrough_ops", "c07.history_fault_ops", "c07.display_failed_sink", "write.short_writes",
            "write_fault_in.integer-digits", "write_fault_in.float", "write_fault_in.string-fragment", "write_fault_in.string-escape", "write_fault_in.paren", "write_fault_in.sigil", "write_fault_in.symbol",
        ],
        "C19" => vec!["c19.prefix_ok", "c19.prefix_eof", "c19.trunc_texts", "c19.receiver_runs", "c19.receiver_waits", "c19.monitor_runs", "errors.io", "errors.syntax", "errors.eof"],
        "C12" => vec!["c12.storm_text_runs", "c12.queue_runs", "c12.trivia_runs", "c12.mode_agreement_runs", "c12.fault_in_history", "c12.config_strict", "c12.config_faulty", "hist.any_benign_runs"],
        "C03" => vec!["hist.any_benign_runs", "hist.any_faulty_runs", "c03.deep_runs", "c03.storm_runs", "c03.storm_conclusive", "c03.storm_overdeep_probe_reached", "c03.storm_with_transient_faults", "c03.enumerated_tiny_inputs", "c03.enumerated_len3_inputs", "c03.wide_runs", "c03.long_token_runs", "c03.single_shot_runs", "errors.io", "errors.syntax", "errors.eof"],
        "C17" => vec!["hist.any_benign_runs", "hist.any_faulty_runs", "c17.printer_checks", "hook.site0", "hook.site1", "hook.site2", "hook.site3"],
        _ => vec![],
    }
}

// ---------------------------------------------------------------------------
// worker / one modes

pub fn worker_main(prop: &str, tier: Tier, seed: u64, start: u64, end: u64, stride: u64, skip: &[u64]) -> i32 {
    start_watchdog(op_hang_limit());
    let stdout = std::io::stdout();
    // Results are flushed per segment, so that a process death loses (and the
    // parent re-runs) at most one segment of this worker's share.
    let seg = 256 * stride;
    let mut a = start;
    let mut last_hits = [0u64; lexpr::verif::SITES];
    let mut minimised_keys = BTreeSet::new();
    while a < end {
        let b = (a + seg).min(end);
        let mut agg = run_range(prop, tier, seed, a, b, stride, skip, true, &mut minimised_keys, None, |i| {
            let mut o = stdout.lock();
            let _ = writeln!(o, "B {}", i);
            let _ = o.flush();
        });
        let hits = lexpr::verif::site_hits();
        for (n, h) in hits.iter().enumerate() {
            agg.counters.insert(format!("hook.site{}", n), *h - last_hits[n]);
        }
        last_hits = hits;
        // the next index of this worker's arithmetic progression at or after b
        let mut next = a;
        while next < b {
            next += stride;
        }
        let mut o = stdout.lock();
        let _ = writeln!(o, "R {} {}", next, serde_json::to_string(&agg).unwrap());
        let _ = o.flush();
        a = next;
    }
    let mut o = stdout.lock();
    let _ = writeln!(o, "D");
    let _ = o.flush();
    0
}

pub fn one_main(prop: &str, tier: Tier, seed: u64, index: u64, crash_file: &Path) -> i32 {
    start_watchdog(op_hang_limit());
    let agg = run_range(prop, tier, seed, index, index + 1, 1, &[], false, &mut BTreeSet::new(), Some(crash_file.to_path_buf()), |_| {});
    println!("{}", serde_json::to_string(&agg).unwrap());
    0
}
