//! The only source of randomness in the simulator: splitmix64 to derive a
//! per-run seed, xoshiro256** to draw the scenario. Nothing here reads a clock,
//! the environment or a hash-map order.

pub fn splitmix64(x: u64) -> u64 {
    let mut z = x.wrapping_add(0x9E37_79B9_7F4A_7C15);
    z = (z ^ (z >> 30)).wrapping_mul(0xBF58_476D_1CE4_E5B9);
    z = (z ^ (z >> 27)).wrapping_mul(0x94D0_49BB_1331_11EB);
    z ^ (z >> 31)
}

/// Seed of run `index` of engine `engine_tag` under `verif_seed`.
pub fn run_seed(verif_seed: u64, engine_tag: u64, index: u64) -> u64 {
    splitmix64(splitmix64(verif_seed ^ engine_tag.rotate_left(32)) ^ index)
}

#[derive(Clone, Debug)]
pub struct Rng {
    s: [u64; 4],
}

impl Rng {
    pub fn new(seed: u64) -> Rng {
        let mut x = seed;
        let mut s = [0u64; 4];
        for slot in s.iter_mut() {
            x = splitmix64(x);
            *slot = x;
        }
        if s == [0; 4] {
            s[0] = 1;
        }
        Rng { s }
    }

    pub fn next_u64(&mut self) -> u64 {
        let result = self.s[1].wrapping_mul(5).rotate_left(7).wrapping_mul(9);
        let t = self.s[1] << 17;
        self.s[2] ^= self.s[0];
        self.s[3] ^= self.s[1];
        self.s[1] ^= self.s[2];
        self.s[0] ^= self.s[3];
        self.s[2] ^= t;
        self.s[3] = self.s[3].rotate_left(45);
        result
    }

    /// Uniform in 0..n (n > 0).
    pub fn below(&mut self, n: u64) -> u64 {
        debug_assert!(n > 0);
        // multiply-shift; bias is irrelevant for our purposes but keep it small
        ((self.next_u64() as u128 * n as u128) >> 64) as u64
    }

    pub fn usize_below(&mut self, n: usize) -> usize {
        self.below(n as u64) as usize
    }

    /// Uniform in lo..=hi.
    pub fn range(&mut self, lo: u64, hi: u64) -> u64 {
        lo + self.below(hi - lo + 1)
    }

    pub fn urange(&mut self, lo: usize, hi: usize) -> usize {
        self.range(lo as u64, hi as u64) as usize
    }

    /// True with probability num/den.
    pub fn chance(&mut self, num: u64, den: u64) -> bool {
        self.below(den) < num
    }

    pub fn coin(&mut self) -> bool {
        self.next_u64() & 1 == 1
    }

    pub fn pick<'a, T>(&mut self, xs: &'a [T]) -> &'a T {
        &xs[self.usize_below(xs.len())]
    }

    /// Short-biased size: mostly small, thin tail up to `max`.
    pub fn small(&mut self, max: usize) -> usize {
        if max == 0 {
            return 0;
        }
        let r = self.below(100);
        let v = if r < 55 {
            self.below(4)
        } else if r < 85 {
            self.below(9)
        } else if r < 97 {
            self.below(33)
        } else {
            self.below(max as u64 + 1)
        };
        (v as usize).min(max)
    }

    pub fn byte(&mut self) -> u8 {
        self.next_u64() as u8
    }

}

/// FNV-1a, used for order-free digests and distinct-tuple identities.
pub fn fnv(bytes: &[u8]) -> u64 {
    let mut h: u64 = 0xcbf2_9ce4_8422_2325;
    for b in bytes {
        h ^= u64::from(*b);
        h = h.wrapping_mul(0x0000_0100_0000_01B3);
    }
    h
}
