//! E-STREAM: the library reading from a scripted stream, compared with its own
//! slice/str readers on the same bytes (C06), and the truncation sweep (C19).

use crate::opts;
use crate::outcome::*;
use crate::text::{self, hex, Lex};
use crate::world::*;
use lexpr::parse::Options;
use lexpr::Parser;
use serde::{Deserialize, Serialize};
use std::collections::BTreeMap;
use std::io;
use std::rc::Rc;

#[derive(Debug, Clone, Copy, PartialEq, Eq, Serialize, Deserialize, PartialOrd, Ord)]
pub enum Api {
    Value,
    Datum,
    DrainValue,
    DrainDatum,
    DrainIter,
}

impl Api {
    pub fn name(self) -> &'static str {
        match self {
            Api::Value => "from_reader",
            Api::Datum => "datum::from_reader",
            Api::DrainValue => "value_iter",
            Api::DrainDatum => "datum_iter",
            Api::DrainIter => "Iterator",
        }
    }
    pub fn single(self) -> bool {
        matches!(self, Api::Value | Api::Datum)
    }
}

pub const APIS: [Api; 5] = [Api::Value, Api::Datum, Api::DrainValue, Api::DrainDatum, Api::DrainIter];

#[derive(Debug, Clone, PartialEq, Serialize, Deserialize)]
pub struct StreamCase {
    pub opts: u32,
    pub api: Api,
    #[serde(with = "hex")]
    pub input: Vec<u8>,
    pub plan: ReadPlan,
}

pub fn item_bound(n: usize, faults: usize) -> usize {
    2 * (n + faults) + 16
}

fn conv<T>(r: Result<lexpr::parse::Result<T>, Abnormal>, to_value: impl FnOnce(T) -> Option<lexpr::Value>, seen: &Seen<'_>, fired: &[Fired], mon: &mut Mon, what: &str) -> PRes {
    match r {
        Ok(Ok(v)) => {
            let v = to_value(v);
            if let Some(val) = &v {
                if !check_utf8_value(val, mon, what) {
                    return Err(PErr { cat: Cat::Syntax, msg: "<value with an ill-formed str, dropped>".into(), loc: None, io_id: None });
                }
            }
            Ok(v)
        }
        Ok(Err(e)) => Err(digest_error(e, seen, fired, mon, what)),
        Err(ab) => {
            report_abnormal(mon, &ab, what);
            Err(PErr { cat: Cat::Syntax, msg: format!("<abnormal: {:?}>", ab), loc: None, io_id: None })
        }
    }
}

/// Run `api` over an in-memory source. `as_str` selects `StrRead`.
/// Which documented preset an option-set index is: those go through the
/// wrappers that exist for them (`from_str`, `from_str_elisp`, ...), every other
/// set through `*_custom`.
#[derive(Clone, Copy, PartialEq, Eq)]
pub enum Preset {
    Default,
    Elisp,
    None,
}

pub fn preset_of(opts_ix: u32) -> Preset {
    if opts_ix == opts::PARSE_DEFAULT {
        Preset::Default
    } else if opts_ix == opts::parse_elisp_index() {
        Preset::Elisp
    } else {
        Preset::None
    }
}

pub fn run_mem(opts_ix: u32, api: Api, bytes: &[u8], as_str: bool, mon: &mut Mon) -> Vec<PRes> {
    let opts = opts::parse_options(opts_ix);
    let preset = preset_of(opts_ix);
    let what = if as_str { "str source" } else { "slice source" };
    let s = if as_str { Some(std::str::from_utf8(bytes).expect("caller checked")) } else { None };
    beat();
    mon.evaluations += 1;
    match api {
        Api::Value => {
            let r = guarded(|| match (s, preset) {
                (Some(s), Preset::Default) => lexpr::from_str(s),
                (Some(s), Preset::Elisp) => lexpr::parse::from_str_elisp(s),
                (Some(s), Preset::None) => lexpr::from_str_custom(s, opts),
                (None, Preset::Default) => lexpr::from_slice(bytes),
                (None, Preset::Elisp) => lexpr::parse::from_slice_elisp(bytes),
                (None, Preset::None) => lexpr::from_slice_custom(bytes, opts),
            });
            vec![conv(r, Some, &Seen::all(bytes), &[], mon, what)]
        }
        Api::Datum => {
            let r = guarded(|| match (s, preset) {
                (Some(s), Preset::Default) => lexpr::datum::from_str(s),
                (Some(s), Preset::Elisp) => lexpr::datum::from_str_elisp(s),
                (Some(s), Preset::None) => lexpr::datum::from_str_custom(s, opts),
                (None, Preset::Default) => lexpr::datum::from_slice(bytes),
                (None, Preset::Elisp) => lexpr::datum::from_slice_elisp(bytes),
                (None, Preset::None) => lexpr::datum::from_slice_custom(bytes, opts),
            });
            vec![conv(r, |d| Some(d.value().clone()), &Seen::all(bytes), &[], mon, what)]
        }
        _ => match s {
            Some(s) if preset == Preset::Default => drain(Parser::from_str(s), api, bytes, 0, None, mon, what).0,
            Some(s) => drain(Parser::from_str_custom(s, opts), api, bytes, 0, None, mon, what).0,
            None if preset == Preset::Default => drain(Parser::from_slice(bytes), api, bytes, 0, None, mon, what).0,
            None => drain(Parser::from_slice_custom(bytes, opts), api, bytes, 0, None, mon, what).0,
        },
    }
}

/// Drain a parser until end of input or the first error. Returns the items and,
/// if a shared reader state is given, the index of the item during which the
/// first fault fired together with the bytes delivered at that moment.
fn drain<'de, R: lexpr::parse::Read<'de>>(
    mut parser: Parser<R>,
    api: Api,
    input: &[u8],
    planned_faults: usize,
    shared: Option<&Rc<ReadShared>>,
    mon: &mut Mon,
    what: &str,
) -> (Vec<PRes>, Option<usize>) {
    let bound = item_bound(input.len(), planned_faults);
    let mut items = Vec::new();
    let mut fired_item = None;
    let lines = LineIndex::new();
    loop {
        if let Some(sh) = shared {
            sh.begin_op();
        }
        let before = shared.map(|s| s.n_fired()).unwrap_or(0);
        beat();
        let r = match api {
            Api::DrainValue => guarded(|| parser.value_iter().next().transpose()),
            Api::DrainIter => guarded(|| Iterator::next(&mut parser).transpose()),
            Api::DrainDatum => guarded(|| parser.datum_iter().next().transpose().map(|o| o.map(|d| d.value().clone()))),
            _ => unreachable!(),
        };
        let (seen_len, fired) = match shared {
            Some(sh) => (sh.delivered.get().min(input.len()), sh.fired.borrow().clone()),
            None => (input.len(), vec![]),
        };
        if fired_item.is_none() && fired.len() > before {
            fired_item = Some(items.len());
        }
        let abnormal = r.is_err();
        let res = conv(r, |o| o, &Seen { input, len: seen_len, idx: Some(&lines) }, &fired, mon, what);
        mon.steps += 1;
        let stop = !matches!(res, Ok(Some(_)));
        items.push(res);
        if stop || abnormal {
            break;
        }
        if items.len() > bound {
            mon.violate(
                "C12",
                "O12.3",
                "iteration yields more items than the input can hold".into(),
                format!("{}: {} drained {} items from {} bytes without reaching the end", what, api.name(), items.len(), input.len()),
            );
            break;
        }
    }
    (items, fired_item)
}

struct StreamRunner<'m> {
    preset: Preset,
    opts: Options,
    api: Api,
    input: &'m [u8],
    planned_faults: usize,
    shared: Rc<ReadShared>,
    mon: &'m mut Mon,
}

impl<'m> WithReader for StreamRunner<'m> {
    type Out = (Vec<PRes>, Option<usize>);
    fn call<R: io::Read>(self, reader: R) -> Self::Out {
        let what = "stream source";
        match self.api {
            Api::Value | Api::Datum => {
                self.shared.begin_op();
                let opts = self.opts;
                let preset = self.preset;
                let r = if self.api == Api::Value {
                    guarded(|| match preset {
                        Preset::Default => lexpr::from_reader(reader),
                        Preset::Elisp => lexpr::parse::from_reader_elisp(reader),
                        Preset::None => lexpr::from_reader_custom(reader, opts),
                    })
                } else {
                    guarded(|| {
                        match preset {
                            Preset::Default => lexpr::datum::from_reader(reader),
                            Preset::Elisp => lexpr::datum::from_reader_elisp(reader),
                            Preset::None => lexpr::datum::from_reader_custom(reader, opts),
                        }
                        .map(|d| d.value().clone())
                    })
                };
                let fired = self.shared.fired.borrow().clone();
                let seen = self.shared.delivered.get().min(self.input.len());
                let fired_item = if fired.is_empty() { None } else { Some(0) };
                (vec![conv(r, Some, &Seen::prefix(self.input, seen), &fired, self.mon, what)], fired_item)
            }
            _ if self.preset == Preset::Default => drain(Parser::from_reader(reader), self.api, self.input, self.planned_faults, Some(&self.shared), self.mon, what),
            _ => drain(Parser::from_reader_custom(reader, self.opts), self.api, self.input, self.planned_faults, Some(&self.shared), self.mon, what),
        }
    }
}

pub struct StreamRun {
    pub items: Vec<PRes>,
    pub fired_item: Option<usize>,
    pub shared: Rc<ReadShared>,
}

pub fn run_stream(case: &StreamCase, mon: &mut Mon) -> StreamRun {
    let mut sim = SimReader::new(&case.input, &case.plan);
    let shared = sim.shared.clone();
    shared.trace.set(mon.keep_log);
    beat();
    mon.evaluations += 1;
    let runner = StreamRunner {
        preset: preset_of(case.opts),
        opts: opts::parse_options(case.opts),
        api: case.api,
        input: &case.input,
        planned_faults: case.plan.faults.len(),
        shared: shared.clone(),
        mon,
    };
    let (items, fired_item) = with_adapter(&case.input, &case.plan, &mut sim, runner);
    mon.steps += shared.calls.get();
    if mon.keep_log {
        for l in shared.calls_log.borrow_mut().drain(..) {
            mon.log.push(format!("    {}", l));
        }
    }
    StreamRun { items, fired_item, shared }
}

/// References are cached per base scenario: the slice result on the full input
/// and on each prefix.
pub struct Refs {
    pub full: Option<Vec<PRes>>,
    pub prefix: BTreeMap<usize, Vec<PRes>>,
}

impl Refs {
    pub fn new() -> Refs {
        Refs { full: None, prefix: BTreeMap::new() }
    }
    fn full(&mut self, case: &StreamCase, mon: &mut Mon) -> &Vec<PRes> {
        if self.full.is_none() {
            self.full = Some(run_mem(case.opts, case.api, &case.input, false, mon));
        }
        self.full.as_ref().unwrap()
    }
    fn prefix(&mut self, case: &StreamCase, k: usize, mon: &mut Mon) -> &Vec<PRes> {
        let k = k.min(case.input.len());
        if !self.prefix.contains_key(&k) {
            let r = run_mem(case.opts, case.api, &case.input[..k], false, mon);
            self.prefix.insert(k, r);
        }
        &self.prefix[&k]
    }
}

fn show_seq(items: &[PRes]) -> String {
    let shown: Vec<String> = items.iter().take(6).map(show_res).collect();
    format!("[{}{}]", shown.join(", "), if items.len() > 6 { ", ..." } else { "" })
}

fn first_diff(a: &[PRes], b: &[PRes]) -> String {
    for i in 0..a.len().max(b.len()) {
        match (a.get(i), b.get(i)) {
            (Some(x), Some(y)) if equiv(x, y) => {}
            (x, y) => {
                return format!(
                    "item {}: {} vs {}",
                    i,
                    x.map(show_res).unwrap_or_else(|| "<none>".into()),
                    y.map(show_res).unwrap_or_else(|| "<none>".into())
                )
            }
        }
    }
    "no difference".into()
}

fn diff_sig(a: &[PRes], b: &[PRes]) -> String {
    for i in 0..a.len().max(b.len()) {
        match (a.get(i), b.get(i)) {
            (Some(x), Some(y)) if equiv(x, y) => {}
            (x, y) => {
                let d = |r: Option<&PRes>| match r {
                    None => "<none>".to_string(),
                    Some(Err(e)) => format!("{}({})", e.cat.name(), e.msg),
                    Some(r) => class_of(r).to_string(),
                };
                return format!("{} vs {}", d(x), d(y));
            }
        }
    }
    "same".into()
}

/// The C06 oracle for one explicit case. Violations go to `mon`.
pub fn check_stream_case(case: &StreamCase, refs: &mut Refs, mon: &mut Mon) {
    let ctx = format!("opts[{}] api={} input={:?}", opts::describe_parse(case.opts), case.api.name(), text::show(&case.input));
    // str vs slice (no stream involved): part of O6.1
    let run = run_stream(case, mon);
    let fired = run.shared.fired.borrow().clone();
    for r in &run.items {
        mon.fold(r);
    }
    mon.add("read.interrupts_fired", run.shared.interrupts_fired.get());
    mon.add("read.short_reads", run.shared.short_reads.get());
    let adapter = match case.plan.adapter {
        ReadAdapter::Direct => "direct",
        ReadAdapter::DynRef => "dyn",
        ReadAdapter::BufReader { .. } => "bufreader",
        ReadAdapter::Chain { .. } => "chain",
    };
    mon.event(|| format!("stream {} -> {} fired={:?}", ctx, show_seq(&run.items), fired));
    // the Serde front end over the same script (see serdecl.rs)
    #[cfg(feature = "serde-client")]
    if case.api == Api::Value {
        if let Some(reference) = run.items.first() {
            crate::serdecl::check_serde_client(case, reference, mon);
        }
    }

    if case.plan.faults.is_empty() || fired.is_empty() {
        // O6.1 benign equivalence / O6.3 an unfired fault is invisible
        let clause = if case.plan.faults.is_empty() { "O6.1" } else { "O6.3" };
        let full = refs.full(case, mon);
        if !equiv_seq(&run.items, full) {
            let sig = format!("stream differs from slice ({})", diff_sig(&run.items, full));
            let detail = format!("{}: stream {} but slice {}; {}", ctx, show_seq(&run.items), show_seq(full), first_diff(&run.items, full));
            mon.violate("C06", clause, sig, detail);
        }
        mon.count(if case.plan.faults.is_empty() { "c06.benign_runs" } else { "c06.unfired_fault_runs" });
        if run.shared.short_reads.get() > 0 || run.shared.interrupts_fired.get() > 0 {
            mon.tuple(format!("benign|{}|{}|{}", adapter, case.api.name(), run.items.last().map(class_of).unwrap_or("none")));
        }
        return;
    }

    let first = fired[0].clone();
    mon.count_dyn(format!("read_fault_fired.{}{}", first.hard.map(|k| k.name()).unwrap_or("EarlyEof"), if case.plan.faults.iter().any(|f| f.id == first.id && f.sticky) { ".sticky" } else { ".oneshot" }));
    if first.hard.is_some() {
        mon.count(match first.payload {
            Payload::Custom => "read_fault_payload.custom",
            Payload::Bare => "read_fault_payload.bare",
            Payload::Os(_) => "read_fault_payload.raw_os_error",
        });
    }
    let lex = text::lex_states(&case.input);
    let lex_at = lex.get(first.at).copied().unwrap_or(Lex::End);
    let j = run.fired_item.unwrap_or(0);
    match first.hard {
        None => {
            // O6.4: an early end of stream is a prefix - when it is an end. A plan
            // from the history engines may hold a one-shot `Ok(0)` followed by more
            // data (a peer that pauses); single-shot parsing of such a stream reads on
            // while it unwinds and may name another construct in its EOF error. That
            // is not an end of stream and is not judged here (the E-STREAM sweep only
            // uses final ends).
            // Nor is a plan in which a second fault (a read error at the same offset)
            // fired after the end: the result is then rightly that error.
            let is_final = (case.plan.faults.iter().any(|f| f.id == first.id && f.sticky) || run.shared.delivered.get() <= first.at) && fired.len() == 1;
            if !is_final {
                mon.count("c06.eof_oneshot_not_judged");
                return;
            }
            mon.count("c06.eof_fired");
            let pre = refs.prefix(case, first.at, mon);
            if !equiv_seq(&run.items, pre) {
                let sig = format!("early end of stream is not the prefix result ({})", diff_sig(&run.items, pre));
                let detail = format!("{}: Eof at {}: stream {} but slice on the prefix {}; {}", ctx, first.at, show_seq(&run.items), show_seq(pre), first_diff(&run.items, pre));
                mon.violate("C06", "O6.4", sig, detail);
            }
            mon.tuple(format!("eof|{}|{}|{}|{}", lex_at.name(), adapter, case.api.name(), run.items.last().map(class_of).unwrap_or("none")));
        }
        Some(kind) => {
            mon.count("c06.hard_fired");
            // items before the one in flight must agree with the reference
            let full = refs.full(case, mon).clone();
            let pre = refs.prefix(case, first.at, mon).clone();
            for i in 0..j.min(run.items.len()) {
                match full.get(i) {
                    Some(r) if equiv(r, &run.items[i]) => {}
                    other => {
                        mon.violate(
                            "C06",
                            "O6.5",
                            "item before the fault differs from slice".into(),
                            format!("{}: item {} before the fault: stream {} but slice {}", ctx, i, show_res(&run.items[i]), other.map(show_res).unwrap_or_else(|| "<none>".into())),
                        );
                    }
                }
            }
            let outcome_class;
            match run.items.get(j) {
                None => {
                    outcome_class = "missing";
                    mon.violate("C06", "O6.2", "no result for the call in flight".into(), format!("{}: no item {}", ctx, j));
                }
                Some(got) => {
                    let carries = matches!(got, Err(e) if e.cat == Cat::Io && e.io_id == Some(first.id));
                    let decided = |r: &PRes| {
                        full.get(j).map(|f| equiv(f, r)).unwrap_or(false) && pre.get(j).map(|p| equiv(p, r)).unwrap_or(false)
                    };
                    if carries {
                        outcome_class = "A-io-error";
                        mon.count("c06.outcome_A");
                    } else {
                        let admissible = match got {
                            Err(e) if e.cat != Cat::Io => decided(got),
                            Ok(Some(_)) if !case.api.single() => decided(got),
                            _ => false,
                        };
                        if admissible {
                            outcome_class = "B-already-decided";
                            mon.count("c06.outcome_B");
                        } else {
                            outcome_class = "violation";
                            let what = match got {
                                Ok(Some(_)) => "read error swallowed into a successful parse".to_string(),
                                Ok(None) => "read error treated as end of input".to_string(),
                                Err(e) if e.cat == Cat::Io => "I/O error does not carry the injected error".to_string(),
                                Err(e) => format!("read error replaced by {}({})", e.cat.name(), e.msg),
                            };
                            let detail = format!(
                                "{}: {:?} error #{} at offset {} (sticky={}): got {}; slice on full input {}, on the delivered prefix {}",
                                ctx,
                                kind,
                                first.id,
                                first.at,
                                case.plan.faults.iter().any(|f| f.id == first.id && f.sticky),
                                show_res(got),
                                full.get(j).map(show_res).unwrap_or_else(|| "<none>".into()),
                                pre.get(j).map(show_res).unwrap_or_else(|| "<none>".into())
                            );
                            mon.violate("C06", "O6.2", what, detail);
                        }
                    }
                }
            }
            mon.tuple(format!("hard|{}|{}|{}|{}|{}", lex_at.name(), kind.name(), adapter, case.api.name(), outcome_class));
            mon.count(match lex_at {
                Lex::Between => "fault_at.between",
                Lex::Comment => "fault_at.comment",
                Lex::StringBody => "fault_at.string-body",
                Lex::StringEscape => "fault_at.string-escape",
                Lex::Utf8Tail => "fault_at.utf8-tail",
                Lex::AfterHash => "fault_at.after-hash",
                Lex::Token => "fault_at.in-token",
                Lex::TokenEnd => "fault_at.token-end",
                Lex::Open => "fault_at.after-open",
                Lex::Close => "fault_at.after-close",
                Lex::Quote => "fault_at.after-quote",
                Lex::Dot => "fault_at.after-dot",
                Lex::End => "fault_at.at-end",
            });
        }
    }
}

/// O6.1, str half: the `&str` source agrees with the slice source.
pub fn check_str_vs_slice(case: &StreamCase, refs: &mut Refs, mon: &mut Mon) {
    if std::str::from_utf8(&case.input).is_err() {
        return;
    }
    let s = run_mem(case.opts, case.api, &case.input, true, mon);
    let full = refs.full(case, mon);
    mon.count("c06.str_vs_slice");
    if !equiv_seq(&s, full) {
        let sig = format!("str differs from slice ({})", diff_sig(&s, full));
        let detail = format!(
            "opts[{}] api={} input={:?}: str {} but slice {}",
            opts::describe_parse(case.opts),
            case.api.name(),
            text::show(&case.input),
            show_seq(&s),
            show_seq(full)
        );
        mon.violate("C06", "O6.1", sig, detail);
    }
}

/// Enumerate the fault dimension for one base scenario (DESIGN 5.1).
pub fn sweep(base: &StreamCase, offsets: Option<&[usize]>, salt: usize, mon: &mut Mon, mut on_violation: impl FnMut(&StreamCase, &Violation)) {
    let mut refs = Refs::new();
    {
        let before = mon.violations.len();
        check_str_vs_slice(base, &mut refs, mon);
        for v in mon.violations[before..].to_vec() {
            on_violation(base, &v);
        }
    }
    let mut run_one = |case: StreamCase, refs: &mut Refs, mon: &mut Mon| {
        mon.before_case(|| serde_json::to_string(&crate::engine::AnyCase::Stream(case.clone())).unwrap_or_default());
        let before = mon.violations.len();
        check_stream_case(&case, refs, mon);
        for v in mon.violations[before..].to_vec() {
            on_violation(&case, &v);
        }
    };
    // (a) benign variants
    run_one(base.clone(), &mut refs, mon);
    let mut c = base.clone();
    c.plan.chunks = vec![1];
    run_one(c, &mut refs, mon);
    let mut c = base.clone();
    c.plan.chunks = vec![];
    c.plan.interrupts = Interrupts::None;
    run_one(c, &mut refs, mon);
    let mut c = base.clone();
    c.plan.interrupts = Interrupts::Alternate;
    run_one(c, &mut refs, mon);
    // (b) hard error at every offset, (c) early end at every offset
    let len = base.input.len();
    let all: Vec<usize>;
    let offs: &[usize] = match offsets {
        Some(o) => o,
        None => {
            all = (0..=len).collect();
            &all
        }
    };
    for &k in offs {
        if k > len {
            continue;
        }
        let mut c = base.clone();
        c.plan.faults = vec![ReadFault {
            at: k,
            kind: ReadFaultKind::Hard(KINDS[k % KINDS.len()]),
            sticky: (k % 2 == 0) ^ (salt & 1 == 1),
            id: 1000 + k as u64,
            // the payload class changes every 7 offsets, so that every kind meets every class
            payload: payload_for(k / 7 + salt / 2),
        }];
        run_one(c, &mut refs, mon);
        if k < len {
            let mut c = base.clone();
            c.plan.faults = vec![ReadFault { at: k, kind: ReadFaultKind::Eof, sticky: true, id: 5000 + k as u64, payload: Payload::Custom }];
            run_one(c, &mut refs, mon);
        }
    }
}

// ---------------------------------------------------------------------------
// C19 truncation sweep

#[derive(Debug, Clone, PartialEq, Serialize, Deserialize)]
pub struct TruncCase {
    pub opts: u32,
    pub datum_api: bool,
    #[serde(with = "hex")]
    pub text: Vec<u8>,
    /// Prefix length, `k < text.len()`.
    pub k: usize,
    /// Chunking of the stream variant (the end-of-stream fault at k is implied).
    pub chunks: Vec<u16>,
    pub adapter: ReadAdapter,
}

/// Does the full text parse as a single datum under the options (the
/// precondition of the truncation clause)?
pub fn accepts_whole(opts_ix: u32, datum_api: bool, text: &[u8]) -> bool {
    let opts = opts::parse_options(opts_ix);
    let r = guarded(|| {
        if datum_api {
            lexpr::datum::from_slice_custom(text, opts).map(|_| ())
        } else {
            lexpr::from_slice_custom(text, opts).map(|_| ())
        }
    });
    matches!(r, Ok(Ok(())))
}

fn token_class_at(text: &[u8], k: usize) -> &'static str {
    let lex = text::lex_states(text);
    lex.get(k).copied().unwrap_or(Lex::End).name()
}

/// O19.1 for one (text, k): slice, str (when valid) and a stream that ends at k.
pub fn check_trunc_case(case: &TruncCase, mon: &mut Mon) {
    let api = if case.datum_api { Api::Datum } else { Api::Value };
    let k = case.k.min(case.text.len());
    let prefix = &case.text[..k];
    let lexname = token_class_at(&case.text, k);
    let judge = |src: &'static str, r: &PRes, mon: &mut Mon| {
        mon.fold(r);
        match r {
            Ok(_) => mon.count("c19.prefix_ok"),
            Err(e) if e.cat == Cat::Eof => mon.count("c19.prefix_eof"),
            Err(e) => {
                let sig = format!("truncated input reported as {}({}) [{}]", e.cat.name(), e.msg, lexname);
                let detail = format!(
                    "opts[{}] {}: text {:?} parses as a single datum, its prefix {:?} (k={}) from {} gives {}",
                    opts::describe_parse(case.opts),
                    api.name(),
                    text::show(&case.text),
                    text::show(prefix),
                    k,
                    src,
                    show_res(r)
                );
                mon.violate("C19", "O19.1", sig, detail);
            }
        }
        mon.tuple(format!("trunc|{}|{}|{}", lexname, src, class_of(r)));
    };
    let r = run_mem(case.opts, api, prefix, false, mon);
    judge("slice", &r[0], mon);
    let slice_res = r;
    if std::str::from_utf8(prefix).is_ok() {
        let r = run_mem(case.opts, api, prefix, true, mon);
        judge("str", &r[0], mon);
    }
    let sc = StreamCase {
        opts: case.opts,
        api,
        input: case.text.clone(),
        plan: ReadPlan {
            adapter: case.adapter.clone(),
            chunks: case.chunks.clone(),
            interrupts: Interrupts::None,
            faults: vec![ReadFault { at: k, kind: ReadFaultKind::Eof, sticky: true, id: 1, payload: Payload::Custom }],
        },
    };
    let run = run_stream(&sc, mon);
    judge("stream", &run.items[0], mon);
    // the three sources must also agree with each other here (C06's O6.4 seen from C19)
    if !equiv(&run.items[0], &slice_res[0]) {
        mon.count("c19.stream_slice_disagree");
    }
}

/// The streaming-receiver client (O19.1'): feed segment by segment, re-parse
/// the accumulated buffer, wait on EOF-category errors, stop on anything else.
#[derive(Debug, Clone, PartialEq, Serialize, Deserialize)]
pub struct ReceiverCase {
    pub opts: u32,
    #[serde(with = "hex")]
    pub text: Vec<u8>,
    /// Segment boundaries (increasing, < len).
    pub cuts: Vec<usize>,
}

pub fn check_receiver_case(case: &ReceiverCase, mon: &mut Mon) {
    let want = run_mem(case.opts, Api::Value, &case.text, false, mon);
    if !matches!(want[0], Ok(Some(_))) {
        mon.count("c19.receiver_inconclusive");
        return;
    }
    let mut cuts: Vec<usize> = case.cuts.iter().copied().filter(|c| *c < case.text.len()).collect();
    cuts.sort_unstable();
    cuts.dedup();
    cuts.push(case.text.len());
    let mut last = None;
    for (i, &c) in cuts.iter().enumerate() {
        let buf = &case.text[..c];
        let r = run_mem(case.opts, Api::Value, buf, false, mon);
        mon.fold(&r[0]);
        let final_seg = i + 1 == cuts.len();
        match &r[0] {
            Err(e) if e.cat == Cat::Eof && !final_seg => {
                mon.count("c19.receiver_waits");
                continue;
            }
            Ok(Some(_)) if !final_seg => {
                // a shorter prefix that already parses (e.g. `12` of `123`): a
                // receiver cannot know; not a violation of the statement
                mon.count("c19.receiver_early_value");
                continue;
            }
            other if !final_seg => {
                let lexname = token_class_at(&case.text, c);
                let sig = match other {
                    Err(e) => format!("truncated input reported as {}({}) [{}]", e.cat.name(), e.msg, lexname),
                    _ => "receiver saw end".to_string(),
                };
                mon.violate(
                    "C19",
                    "O19.1",
                    sig,
                    format!(
                        "opts[{}]: streaming receiver gave up after {} of {} bytes of {:?}: {}",
                        opts::describe_parse(case.opts),
                        c,
                        case.text.len(),
                        text::show(&case.text),
                        show_res(other)
                    ),
                );
                return;
            }
            _ => last = Some(r[0].clone()),
        }
    }
    if let Some(l) = last {
        if !equiv(&l, &want[0]) {
            mon.violate("C19", "O19.1", "receiver ends with a different value".into(), format!("{:?}", text::show(&case.text)));
        }
    }
}
