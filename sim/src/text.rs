//! Text workload generators: G-LAYOUT (token-level layout with trivia),
//! G-DATUM (grammar of every accepted spelling), G-SOUP (token soups, mutations,
//! tiny strings), G-PATH (pathological nesting), plus a light lexical classifier
//! used only for reach probes.

use crate::opts::{self, ParseFields, PrintFields};
use crate::prng::Rng;
use crate::val::V;
use serde::{Deserialize, Serialize};

// ---------------------------------------------------------------------------
// bytes <-> hex for replay files

pub mod hex {
    use serde::{Deserialize, Deserializer, Serializer};
    pub fn encode(b: &[u8]) -> String {
        let mut s = String::with_capacity(b.len() * 2);
        for x in b {
            s.push_str(&format!("{:02x}", x));
        }
        s
    }
    pub fn decode(s: &str) -> Result<Vec<u8>, String> {
        if s.len() % 2 != 0 {
            return Err("odd hex length".into());
        }
        (0..s.len() / 2)
            .map(|i| u8::from_str_radix(&s[2 * i..2 * i + 2], 16).map_err(|e| e.to_string()))
            .collect()
    }
    pub fn serialize<S: Serializer>(b: &Vec<u8>, s: S) -> Result<S::Ok, S::Error> {
        s.serialize_str(&encode(b))
    }
    pub fn deserialize<'de, D: Deserializer<'de>>(d: D) -> Result<Vec<u8>, D::Error> {
        let s = String::deserialize(d)?;
        decode(&s).map_err(serde::de::Error::custom)
    }
}

/// Lossy, printable rendering of bytes for logs and signatures.
pub fn show(b: &[u8]) -> String {
    let mut s = String::new();
    for &c in b.iter().take(200) {
        match c {
            b'\\' => s.push_str("\\\\"),
            0x20..=0x7E => s.push(c as char),
            b'\n' => s.push_str("\\n"),
            b'\t' => s.push_str("\\t"),
            b'\r' => s.push_str("\\r"),
            _ => s.push_str(&format!("\\x{:02x}", c)),
        }
    }
    if b.len() > 200 {
        s.push_str(&format!("...(+{} bytes)", b.len() - 200));
    }
    s
}

// ---------------------------------------------------------------------------
// G-LAYOUT

#[derive(Debug, Clone, PartialEq, Serialize, Deserialize)]
pub struct Tok {
    #[serde(with = "hex")]
    pub text: Vec<u8>,
    /// Index of the top-level datum this token belongs to.
    pub datum: usize,
    /// Must the gap *before* this token be non-empty (the printer emits a space there)?
    pub gap_required: bool,
}

fn print_atom(v: &V, popts: u32) -> Vec<u8> {
    lexpr::to_vec_custom(&v.to_value(), opts::print_options(popts)).unwrap_or_default()
}

fn push_tokens(v: &V, popts: u32, datum: usize, first_gap_required: bool, out: &mut Vec<Tok>) {
    let pf = opts::print_fields(popts);
    match v {
        V::List(items, tail) => {
            out.push(Tok { text: b"(".to_vec(), datum, gap_required: first_gap_required });
            for (i, it) in items.iter().enumerate() {
                push_tokens(it, popts, datum, i > 0, out);
            }
            if let Some(t) = tail {
                out.push(Tok { text: b".".to_vec(), datum, gap_required: true });
                push_tokens(t, popts, datum, true, out);
            }
            out.push(Tok { text: b")".to_vec(), datum, gap_required: false });
        }
        V::Vector(items) => {
            let (open, close): (&[u8], &[u8]) =
                if pf.vector == 1 { (b"[", b"]") } else { (b"#(", b")") };
            out.push(Tok { text: open.to_vec(), datum, gap_required: first_gap_required });
            for (i, it) in items.iter().enumerate() {
                push_tokens(it, popts, datum, i > 0, out);
            }
            out.push(Tok { text: close.to_vec(), datum, gap_required: false });
        }
        V::Bytes(_) => {
            let text = print_atom(v, popts);
            if text.first() == Some(&b'"') {
                out.push(Tok { text, datum, gap_required: first_gap_required });
            } else {
                // `#u8(1 2 3)`, `#vu8(1 2 3)` or `[1 2 3]`: split at spaces and the closer
                let close = *text.last().unwrap_or(&b')');
                let body = &text[..text.len().saturating_sub(1)];
                let mut first = true;
                for (i, part) in body.split(|c| *c == b' ').enumerate() {
                    if part.is_empty() {
                        continue;
                    }
                    // the opener may be glued to the first element: `#u8(1`
                    if i == 0 {
                        if let Some(p) = part.iter().position(|c| *c == b'(' || *c == b'[') {
                            out.push(Tok {
                                text: part[..=p].to_vec(),
                                datum,
                                gap_required: first_gap_required,
                            });
                            if p + 1 < part.len() {
                                out.push(Tok {
                                    text: part[p + 1..].to_vec(),
                                    datum,
                                    gap_required: false,
                                });
                            }
                            first = false;
                            continue;
                        }
                    }
                    out.push(Tok {
                        text: part.to_vec(),
                        datum,
                        gap_required: if first { first_gap_required } else { true },
                    });
                    first = false;
                }
                out.push(Tok { text: vec![close], datum, gap_required: false });
            }
        }
        _ => {
            out.push(Tok { text: print_atom(v, popts), datum, gap_required: first_gap_required });
        }
    }
}

/// Token sequence of the printed values; the gap before the first token of each
/// value after the first is mandatory.
pub fn tokens_of(values: &[V], popts: u32) -> Vec<Tok> {
    let mut out = Vec::new();
    for (i, v) in values.iter().enumerate() {
        push_tokens(v, popts, i, i > 0, &mut out);
    }
    out
}

#[derive(Debug, Clone, Copy)]
pub struct TriviaMask {
    pub space: bool,
    pub tab: bool,
    pub cr: bool,
    pub lf: bool,
    pub ff: bool,
    pub comment: bool,
    pub raw_bytes_in_comments: bool,
}

impl TriviaMask {
    pub fn draw(rng: &mut Rng, allow_raw: bool) -> TriviaMask {
        let mut m = TriviaMask {
            space: rng.chance(3, 4),
            tab: rng.chance(1, 2),
            cr: rng.chance(1, 2),
            lf: rng.chance(3, 4),
            ff: rng.chance(1, 2),
            comment: rng.chance(1, 2),
            raw_bytes_in_comments: allow_raw && rng.chance(1, 3),
        };
        if !(m.space || m.tab || m.cr || m.lf || m.ff || m.comment) {
            m.space = true;
        }
        m
    }
    pub fn blanks_only() -> TriviaMask {
        TriviaMask {
            space: true,
            tab: false,
            cr: false,
            lf: false,
            ff: false,
            comment: false,
            raw_bytes_in_comments: false,
        }
    }
}

/// Unicode (and ASCII control) characters with line-break or blank semantics
/// elsewhere: NEL, LS, PS, NBSP, BOM, ZWSP, OGHAM SPACE, IDEOGRAPHIC SPACE, VT,
/// the information separators, NUL, DEL.
pub const LINE_LIKE: &[&str] = &[
    "\u{85}", "\u{2028}", "\u{2029}", "\u{a0}", "\u{feff}", "\u{200b}", "\u{1680}", "\u{3000}", "\u{b}", "\u{1c}", "\u{1d}", "\u{1e}", "\u{1f}", "\u{0}", "\u{7f}",
];

fn one_trivia(rng: &mut Rng, m: &TriviaMask, out: &mut Vec<u8>) {
    loop {
        match rng.below(6) {
            0 if m.space => {
                out.push(b' ');
                return;
            }
            1 if m.tab => {
                out.push(b'\t');
                return;
            }
            2 if m.cr => {
                out.push(b'\r');
                return;
            }
            3 if m.lf => {
                out.push(b'\n');
                return;
            }
            4 if m.ff => {
                out.push(0x0C);
                return;
            }
            5 if m.comment => {
                out.push(b';');
                let n = rng.small(12);
                for _ in 0..n {
                    let c = match rng.below(12) {
                        0 => b';',
                        1 => b'"',
                        2 => b'(',
                        3 => b')',
                        4 => b'\\',
                        5 => b'\r',
                        6 if m.raw_bytes_in_comments => {
                            let b = rng.byte();
                            if b == b'\n' {
                                b'x'
                            } else {
                                b
                            }
                        }
                        7 => {
                            out.extend_from_slice("λ".as_bytes());
                            continue;
                        }
                        9 => {
                            // characters that other tools treat as line ends or blanks:
                            // a comment ends at LF only, whatever else is inside it
                            out.extend_from_slice(rng.pick(LINE_LIKE).as_bytes());
                            out.push(b'x');
                            continue;
                        }
                        8 => b'#',
                        _ => rng.range(0x20, 0x7E) as u8,
                    };
                    out.push(c);
                }
                out.push(b'\n');
                return;
            }
            _ => {}
        }
    }
}

pub fn gen_trivia(rng: &mut Rng, m: &TriviaMask, required: bool) -> Vec<u8> {
    let mut out = Vec::new();
    let n = if required { 1 + rng.small(4) } else if rng.chance(1, 2) { 0 } else { rng.small(4) };
    for _ in 0..n {
        one_trivia(rng, m, &mut out);
    }
    out
}

/// Gaps for a token sequence: `tokens.len() + 1` trivia strings (before the
/// first token, between tokens, after the last).
pub fn gen_gaps(rng: &mut Rng, m: &TriviaMask, toks: &[Tok], final_comment: bool) -> Vec<Vec<u8>> {
    let mut gaps = Vec::with_capacity(toks.len() + 1);
    for t in toks {
        gaps.push(gen_trivia(rng, m, t.gap_required));
    }
    let mut last = gen_trivia(rng, m, false);
    if final_comment && m.comment {
        last.extend_from_slice(b";end");
    }
    gaps.push(last);
    gaps
}

pub fn assemble(toks: &[Tok], gaps: &[Vec<u8>]) -> Vec<u8> {
    let mut out = Vec::new();
    for (i, t) in toks.iter().enumerate() {
        if let Some(g) = gaps.get(i) {
            out.extend_from_slice(g);
        } else if t.gap_required {
            out.push(b' ');
        }
        out.extend_from_slice(&t.text);
    }
    if let Some(g) = gaps.get(toks.len()) {
        out.extend_from_slice(g);
    }
    out
}

/// Parser options that recognise what printer options `popts` emit; the other
/// fields are drawn.
pub fn matching_parse_opts(rng: &mut Rng, popts: u32) -> u32 {
    let pf: PrintFields = opts::print_fields(popts);
    let kw_bit = match pf.kw {
        0 => 4,
        1 => 1,
        _ => 2,
    };
    let f = ParseFields {
        kw: kw_bit | if rng.chance(1, 4) { rng.below(8) as u8 } else { 0 },
        nil: if pf.nil == 1 || pf.boolean == 1 { rng.below(3) as u8 } else { 0 },
        t: if pf.boolean == 1 { rng.below(2) as u8 } else { 0 },
        brackets: pf.vector,
        string: pf.string,
        chr: pf.chr,
        racket: rng.below(2) as u8,
        digit: rng.below(2) as u8,
    };
    opts::parse_index(f)
}

// ---------------------------------------------------------------------------
// G-DATUM: single-datum texts in every spelling the parser may accept

pub struct DatumGen<'a> {
    pub rng: &'a mut Rng,
    pub f: ParseFields,
}

/// Character names: the ones the parser accepts today and the ones other
/// Schemes (R7RS, MIT, Guile, Racket) use. A text is only used for the truncation
/// sweep if the parser accepts it, so names it does not know cost nothing and a
/// name it learns later is covered from that day on.
const CHAR_NAMES: &[&str] = &[
    "nul", "alarm", "backspace", "tab", "linefeed", "newline", "vtab", "page", "return", "esc",
    "space", "delete", "null", "escape", "altmode", "rubout", "del", "bel", "bell", "nl", "lf", "cr", "ht", "sp",
    "formfeed", "ff", "bs", "vt",
];

impl<'a> DatumGen<'a> {
    fn ws(&mut self, out: &mut Vec<u8>, required: bool) {
        let n = if required { 1 + self.rng.small(2) } else { self.rng.small(2) };
        for _ in 0..n {
            match self.rng.below(8) {
                0 => out.push(b'\n'),
                1 => out.push(b'\t'),
                2 => out.extend_from_slice(b";c\n"),
                _ => out.push(b' '),
            }
        }
    }

    fn digits(&mut self, radix: u32, out: &mut Vec<u8>, max: usize) {
        let n = 1 + self.rng.small(max);
        for _ in 0..n {
            let d = self.rng.below(u64::from(radix)) as u32;
            let c = std::char::from_digit(d, radix).unwrap();
            let c = if self.rng.chance(1, 4) { c.to_ascii_uppercase() } else { c };
            out.push(c as u8);
        }
    }

    fn number(&mut self, out: &mut Vec<u8>) {
        match self.rng.below(8) {
            0 => {
                let (p, r) = *self.rng.pick(&[("#b", 2), ("#o", 8), ("#d", 10), ("#x", 16)]);
                out.extend_from_slice(p.as_bytes());
                match self.rng.below(4) {
                    0 => out.push(b'-'),
                    1 => out.push(b'+'),
                    _ => {}
                }
                self.digits(r, out, 10);
            }
            1 | 2 => {
                match self.rng.below(4) {
                    0 => out.push(b'-'),
                    1 => out.push(b'+'),
                    _ => {}
                }
                if self.rng.chance(1, 6) {
                    out.extend_from_slice(b"000");
                }
                self.digits(10, out, 22);
            }
            _ => {
                match self.rng.below(4) {
                    0 => out.push(b'-'),
                    1 => out.push(b'+'),
                    _ => {}
                }
                self.digits(10, out, 8);
                let frac = self.rng.chance(3, 4);
                if frac {
                    out.push(b'.');
                    self.digits(10, out, 8);
                }
                if !frac || self.rng.chance(1, 2) {
                    out.push(*self.rng.pick(b"eE"));
                    match self.rng.below(3) {
                        0 => out.push(b'-'),
                        1 => out.push(b'+'),
                        _ => {}
                    }
                    let e = self.rng.below(30);
                    out.extend_from_slice(e.to_string().as_bytes());
                }
            }
        }
    }

    fn uni_char(&mut self) -> char {
        *self.rng.pick(&['é', 'λ', 'ß', '名', '😀', 'Ж', '\u{80}', '\u{7FF}', '\u{FFFD}', '\u{10FFFF}'])
    }

    fn symbol(&mut self, out: &mut Vec<u8>) {
        match self.rng.below(10) {
            0 => out.extend_from_slice(self.rng.pick(&["+", "-", "...", "->a", "<=?", "a.b", "!x"]).as_bytes()),
            1 | 2 => {
                let mut s = String::new();
                s.push(self.uni_char());
                for _ in 0..self.rng.small(5) {
                    if self.rng.coin() {
                        s.push(self.uni_char());
                    } else {
                        s.push(self.rng.range(b'a'.into(), b'z'.into()) as u8 as char);
                    }
                }
                if s.chars().next().map(|c| c.is_alphabetic()).unwrap_or(false) {
                    out.extend_from_slice(s.as_bytes());
                } else {
                    out.extend_from_slice(b"sym");
                }
            }
            3 if self.f.racket == 1 => out.extend_from_slice(b"#%app"),
            4 if self.f.digit == 1 => out.extend_from_slice(self.rng.pick(&["1+", "12ab", "0x10", "1/2", "9a-b"]).as_bytes()),
            5 => out.extend_from_slice(self.rng.pick(&["nil", "t", "nilx", "tt"]).as_bytes()),
            _ => {
                let n = 1 + self.rng.small(8);
                for i in 0..n {
                    let c = if i == 0 {
                        self.rng.range(b'a'.into(), b'z'.into()) as u8
                    } else {
                        *self.rng.pick(b"abcxyz019-+.*/<=>!?$%&^_~@")
                    };
                    out.push(c);
                }
                if self.rng.chance(1, 8) {
                    let c = self.uni_char();
                    let mut b = [0u8; 4];
                    out.extend_from_slice(c.encode_utf8(&mut b).as_bytes());
                }
            }
        }
    }

    fn keyword(&mut self, out: &mut Vec<u8>) {
        let mut forms: Vec<u8> = vec![];
        if self.f.kw & 1 != 0 {
            forms.push(1);
        }
        if self.f.kw & 2 != 0 {
            forms.push(2);
        }
        if self.f.kw & 4 != 0 {
            forms.push(4);
        }
        if forms.is_empty() {
            return self.symbol(out);
        }
        let form = *self.rng.pick(&forms);
        let name = *self.rng.pick(&["foo", "a", "key-1", "λx", "x.y"]);
        match form {
            1 => {
                out.push(b':');
                out.extend_from_slice(name.as_bytes());
            }
            2 => {
                // postfix form needs an ASCII-alphabetic initial
                out.extend_from_slice(self.rng.pick(&["foo", "a", "key-1"]).as_bytes());
                out.push(b':');
            }
            _ => {
                out.extend_from_slice(b"#:");
                out.extend_from_slice(name.as_bytes());
            }
        }
    }

    fn character(&mut self, out: &mut Vec<u8>) {
        if self.f.chr == 1 && self.rng.chance(2, 3) {
            out.push(b'?');
            match self.rng.below(10) {
                0 => out.extend_from_slice(b"\\n"),
                1 => out.extend_from_slice(b"\\^a"),
                2 => out.extend_from_slice(b"\\x41"),
                3 => out.extend_from_slice(b"\\N{U+3bb}"),
                4 => out.extend_from_slice(b"\\u00e9"),
                5 => out.extend_from_slice(b"\\U0001F600"),
                6 => out.extend_from_slice(b"\\101"),
                7 => {
                    let c = self.uni_char();
                    let mut b = [0u8; 4];
                    out.extend_from_slice(c.encode_utf8(&mut b).as_bytes());
                }
                8 => {
                    out.push(b'\\');
                    out.push(*self.rng.pick(b"()[];\\\"'`#.,"));
                }
                _ => out.push(self.rng.range(b'a'.into(), b'z'.into()) as u8),
            }
        } else {
            out.extend_from_slice(b"#\\");
            match self.rng.below(6) {
                0 => out.extend_from_slice(self.rng.pick(CHAR_NAMES).as_bytes()),
                1 => {
                    out.push(b'x');
                    let n = *self.rng.pick(&[0x41u32, 0xe9, 0x3bb, 0x1F600, 0x7f, 0]);
                    out.extend_from_slice(format!("{:x}", n).as_bytes());
                }
                2 => {
                    let c = self.uni_char();
                    let mut b = [0u8; 4];
                    out.extend_from_slice(c.encode_utf8(&mut b).as_bytes());
                }
                3 => out.push(b'x'),
                _ => out.push(self.rng.range(0x21, 0x7E) as u8),
            }
        }
    }

    fn string(&mut self, out: &mut Vec<u8>) {
        out.push(b'"');
        let n = self.rng.small(10);
        for _ in 0..n {
            match self.rng.below(10) {
                0 | 1 | 2 => out.push(self.rng.range(b'a'.into(), b'z'.into()) as u8),
                3 => out.push(b' '),
                4 => {
                    let c = self.uni_char();
                    let mut b = [0u8; 4];
                    out.extend_from_slice(c.encode_utf8(&mut b).as_bytes());
                }
                5 => out.extend_from_slice(b"\\\""),
                6 if self.rng.coin() => out.extend_from_slice(b"\\\\"),
                6 => {
                    // raw line ends and other control bytes inside the literal
                    // (multi-line strings are ordinary text)
                    out.extend_from_slice(*self.rng.pick(&[&b"\n"[..], b"\r\n", b"\r", b"\t", b"\x0c", b"\n\n", b"\r\r\n"]));
                }
                _ => {
                    if self.f.string == 0 {
                        let e: &[u8] = *self.rng.pick(&[
                            &b"\\a"[..], b"\\b", b"\\t", b"\\n", b"\\r", b"\\v", b"\\f", b"\\|",
                            b"\\x41;", b"\\xe9;", b"\\x3bb;", b"\\x1F600;", b"\\x0;", b"\\x7f;",
                        ]);
                        out.extend_from_slice(e);
                    } else {
                        let e: &[u8] = *self.rng.pick(&[
                            &b"\\a"[..], b"\\b", b"\\t", b"\\n", b"\\r", b"\\v", b"\\f", b"\\e",
                            b"\\s", b"\\d", b"\\ ", b"\\^a", b"\\^Z", b"\\x41", b"\\xe9", b"\\x3bb",
                            b"\\101", b"\\351", b"\\0", b"\\u00e9", b"\\U0001F600", b"\\N{U+41}",
                            b"\\N{U+1F600}", b"\\q", b"\\(",
                        ]);
                        out.extend_from_slice(e);
                    }
                }
            }
        }
        out.push(b'"');
    }

    fn bytevec(&mut self, out: &mut Vec<u8>) {
        out.extend_from_slice(if self.rng.coin() { b"#u8" } else { b"#vu8" });
        out.push(b'(');
        let n = self.rng.small(5);
        for i in 0..n {
            self.ws(out, i > 0);
            if self.rng.chance(1, 5) {
                out.extend_from_slice(format!("#x{:x}", self.rng.below(256)).as_bytes());
            } else {
                out.extend_from_slice(self.rng.below(256).to_string().as_bytes());
            }
        }
        self.ws(out, false);
        out.push(b')');
    }

    pub fn atom(&mut self, out: &mut Vec<u8>) {
        match self.rng.below(12) {
            0 => out.extend_from_slice(self.rng.pick(&["#nil", "#t", "#f", "()"]).as_bytes()),
            1 | 2 => self.number(out),
            3 | 4 => self.symbol(out),
            5 => self.keyword(out),
            6 | 7 => self.character(out),
            8 | 9 => self.string(out),
            10 => self.bytevec(out),
            _ => self.symbol(out),
        }
    }

    pub fn datum(&mut self, out: &mut Vec<u8>, depth: u32) {
        if depth == 0 || self.rng.chance(1, 2) {
            return self.atom(out);
        }
        match self.rng.below(8) {
            0 | 1 | 2 => {
                let (o, c) = if self.rng.chance(1, 4) && self.f.brackets == 0 { (b'[', b']') } else { (b'(', b')') };
                out.push(o);
                let n = self.rng.small(4);
                for i in 0..n {
                    self.ws(out, i > 0);
                    self.datum(out, depth - 1);
                }
                if n > 0 && c == b')' && self.rng.chance(1, 4) {
                    self.ws(out, true);
                    out.push(b'.');
                    self.ws(out, true);
                    self.datum(out, depth - 1);
                }
                self.ws(out, false);
                out.push(c);
            }
            3 | 4 => {
                let brackets = self.f.brackets == 1 && self.rng.coin();
                if brackets {
                    out.push(b'[');
                } else {
                    out.extend_from_slice(b"#(");
                }
                let n = self.rng.small(4);
                for i in 0..n {
                    self.ws(out, i > 0);
                    self.datum(out, depth - 1);
                }
                self.ws(out, false);
                out.push(if brackets { b']' } else { b')' });
            }
            _ => {
                out.extend_from_slice(self.rng.pick(&["'", "`", ",", ",@"]).as_bytes());
                if self.rng.chance(1, 5) {
                    self.ws(out, true);
                }
                self.datum(out, depth - 1);
            }
        }
    }
}

pub fn gen_datum_text(rng: &mut Rng, opts_ix: u32) -> Vec<u8> {
    let mut out = Vec::new();
    let depth = rng.below(4) as u32;
    let lead = rng.chance(1, 6);
    let trail = rng.chance(1, 6);
    let mut g = DatumGen { rng, f: opts::parse_fields(opts_ix) };
    if lead {
        g.ws(&mut out, true);
    }
    g.datum(&mut out, depth);
    if trail {
        g.ws(&mut out, true);
    }
    out
}

// ---------------------------------------------------------------------------
// G-SOUP

const FRAGMENTS: &[&[u8]] = &[
    b"(", b")", b"[", b"]", b"#(", b"#u8(", b"#vu8(", b"'", b"`", b",", b",@", b".", b" . ",
    b" ", b"\n", b"\t", b"\r", b"\x0c", b";", b";c\n", b"#", b"#t", b"#f", b"#nil", b"#n", b"#:",
    b"#:kw", b":kw", b"kw:", b"#\\", b"#\\a", b"#\\space", b"#\\x41", b"#\\x", b"#\\xZZ",
    b"#\\xFFFFFFFFFF", b"?", b"?a", b"?\\", b"?\\^", b"?\\N{U+41}", b"?\\x41", b"\"", b"\"abc\"",
    b"\\", b"\"\\", b"\"\\x", b"\"\\x41;\"", b"\"\\xFFFFFFFFFF;\"", b"\"\\u00e9\"", b"\"\\N{U+\"",
    b"\"\\351\"", b"\"\\^a\"", b"\"\\x41\\xe9\"", b"0", b"1", b"42", b"-", b"+", b"-1", b"+1",
    b"1.", b"1.5", b"1e5", b"1.5e", b"1.5e+", b"1e999999999999", b"1e-999999999999",
    b"99999999999999999999999", b"18446744073709551616", b"-9223372036854775809", b"#x", b"#xFF",
    b"#b102", b"#o8", b"#d1.5", b"#x-", b"#%", b"#%app", b"nil", b"t", b"foo", b"a.b", b"...",
    b"|", b"{", b"}", b"\x00", b"\x7f", b"\xc3", b"\xc3\xa9", b"\xe2\x82", b"\xe2\x82\xac",
    b"\xf0\x9f\x98\x80", b"\xf0\x9f", b"\xc0\xaf", b"\xed\xa0\x80", b"\xf4\x90\x80\x80", b"\xff",
    b"\x80", b"\xce\xbb", b"1a", b"12ab", b"1+", b"#!eof", b"#;", b"#|", b"|#", b"\"a\r\nb\"", b"\"a\nb\"", b"\"a\rb\"", b"\"\n", b"\r\n",
];

/// A numeric literal built around the boundaries of the scanner's arithmetic:
/// digit counts around 19/20 (u64), exponents around the f64 range and around
/// i32::MAX, fractions long enough to saturate the significand.
pub fn gen_boundary_number(rng: &mut Rng, out: &mut Vec<u8>) {
    match rng.below(6) {
        0 => out.push(b'-'),
        1 => out.push(b'+'),
        2 => out.extend_from_slice(*rng.pick(&[&b"#x"[..], b"#b", b"#o", b"#d", b"#x-", b"#d+"])),
        _ => {}
    }
    if rng.chance(1, 2) {
        // digits of a value at which the scanner's arithmetic changes regime,
        // with the decimal point anywhere in or after them and a few more digits
        const EDGES: &[&str] = &[
            "18446744073709551615", "18446744073709551616", "18446744073709551614", "1844674407370955161", "1844674407370955162",
            "9223372036854775807", "9223372036854775808", "9223372036854775809", "9007199254740992", "9007199254740993", "4294967295", "4294967296",
            "10000000000000000000", "9999999999999999999", "99999999999999999999", "17976931348623157", "4940656458412465", "22250738585072014",
        ];
        let digits = rng.pick(EDGES).as_bytes();
        let extra: Vec<u8> = (0..rng.urange(0, 3)).map(|_| *rng.pick(b"04599")).collect();
        let mut all = digits.to_vec();
        all.extend_from_slice(&extra);
        if rng.chance(1, 4) {
            // leading zeros and a fraction-only spelling
            out.extend_from_slice(b"0.000");
            out.extend_from_slice(&all);
        } else if rng.chance(2, 3) {
            let p = rng.urange(1, all.len());
            out.extend_from_slice(&all[..p]);
            out.push(b'.');
            out.extend_from_slice(&all[p..]);
        } else {
            out.extend_from_slice(&all);
        }
        if rng.chance(1, 3) {
            out.push(*rng.pick(b"eE"));
            out.extend_from_slice(*rng.pick(&[&b"0"[..], b"-7", b"+19", b"-19", b"308", b"-324", b"292"]));
        }
        return;
    }
    let nd = *rng.pick(&[1usize, 2, 18, 19, 20, 21, 25, 40, 310, 330]);
    let lead = *rng.pick(&[b'0', b'1', b'9', b'1', b'9']);
    for i in 0..nd {
        out.push(if i == 0 { lead } else { b'0' + rng.below(10) as u8 });
    }
    if rng.chance(1, 2) {
        out.push(b'.');
        let nf = *rng.pick(&[0usize, 1, 2, 17, 19, 20, 25, 330]);
        for _ in 0..nf {
            out.push(b'0' + rng.below(10) as u8);
        }
    }
    if rng.chance(2, 3) {
        out.push(*rng.pick(b"eE"));
        match rng.below(3) {
            0 => out.push(b'-'),
            1 => out.push(b'+'),
            _ => {}
        }
        let e = *rng.pick(&[
            "0", "1", "22", "23", "307", "308", "309", "323", "324", "325", "400", "2147483646", "2147483647", "2147483648", "4294967295", "4294967296",
            "9999999999", "99999999999999999999", "",
        ]);
        out.extend_from_slice(e.as_bytes());
    }
}

/// A numeric character escape with a digit count around the guards of the
/// decoders (24-bit limit, fixed-width \\u / \\U forms), bare or inside a string.
pub fn gen_boundary_escape(rng: &mut Rng, out: &mut Vec<u8>) {
    let (prefix, radix, suffix): (&[u8], u32, &[u8]) = *rng.pick(&[
        (&b"\\"[..], 8, &b""[..]),
        (b"\\x", 16, b""),
        (b"\\x", 16, b";"),
        (b"\\u", 16, b""),
        (b"\\U", 16, b""),
        (b"\\N{U+", 16, b"}"),
        (b"#\\x", 16, b""),
        (b"?\\x", 16, b""),
        (b"?\\", 8, b""),
        (b"?\\N{U+", 16, b"}"),
    ]);
    let in_string = prefix[0] == b'\\' && rng.chance(4, 5);
    if in_string {
        out.push(b'"');
        if rng.coin() {
            out.push(b'a');
        }
    }
    out.extend_from_slice(prefix);
    let n = *rng.pick(&[1usize, 2, 3, 4, 5, 6, 7, 8, 9, 10, 11, 12, 13, 20, 40]);
    let lead = *rng.pick(&[1u32, 1, radix - 1, 3]);
    for i in 0..n {
        let d = if i == 0 { lead } else if rng.chance(1, 2) { 0 } else { rng.below(u64::from(radix)) as u32 };
        out.push(std::char::from_digit(d, radix).unwrap() as u8);
    }
    out.extend_from_slice(suffix);
    if in_string {
        if rng.coin() {
            out.push(b'z');
        }
        if rng.chance(5, 6) {
            out.push(b'"');
        }
    }
}

pub fn gen_soup(rng: &mut Rng, max_frags: usize) -> Vec<u8> {
    let n = 1 + rng.small(max_frags);
    let mut out = Vec::new();
    for _ in 0..n {
        if rng.chance(1, 12) {
            out.push(rng.byte());
        } else if rng.chance(1, 10) {
            gen_boundary_number(rng, &mut out);
        } else if rng.chance(1, 10) {
            gen_boundary_escape(rng, &mut out);
        } else {
            out.extend_from_slice(*rng.pick(FRAGMENTS));
        }
        if rng.chance(1, 3) {
            out.push(b' ');
        }
    }
    out
}

pub fn gen_tiny(rng: &mut Rng) -> Vec<u8> {
    let n = rng.urange(0, 3);
    (0..n).map(|_| rng.byte()).collect()
}

pub fn mutate(rng: &mut Rng, base: &[u8]) -> Vec<u8> {
    let mut out = base.to_vec();
    let n = 1 + rng.small(3);
    for _ in 0..n {
        if out.is_empty() {
            out.push(rng.byte());
            continue;
        }
        let i = rng.usize_below(out.len());
        match rng.below(6) {
            0 => out[i] ^= 1 << rng.below(8),
            1 => {
                out.remove(i);
            }
            2 => {
                let c = out[i];
                out.insert(i, c);
            }
            3 => {
                let f = *rng.pick(FRAGMENTS);
                for (k, b) in f.iter().enumerate() {
                    out.insert(i + k, *b);
                }
            }
            4 => out.truncate(i),
            _ => out[i] = rng.byte(),
        }
    }
    out
}

/// Replace ill-formed sequences so the text can be fed through the `&str` source.
pub fn repair_utf8(b: &[u8]) -> String {
    String::from_utf8_lossy(b).into_owned()
}

// ---------------------------------------------------------------------------
// G-PATH

#[derive(Debug, Clone, PartialEq, Serialize, Deserialize)]
pub enum PathShape {
    /// `count` copies of `opener`, an atom, then `closers` matching closers.
    Nest { opener: String, count: usize, closed: bool },
    /// openers cycled from a list
    Mixed { openers: Vec<String>, count: usize, closed: bool },
}

pub fn closer_for(opener: &str) -> &'static str {
    match opener.as_bytes().first() {
        Some(b'(') => ")",
        Some(b'[') => "]",
        Some(b'#') if opener.starts_with("#(") => ")",
        _ => "",
    }
}

pub fn build_path(shape: &PathShape) -> Vec<u8> {
    let mut out = Vec::new();
    match shape {
        PathShape::Nest { opener, count, closed } => {
            for _ in 0..*count {
                out.extend_from_slice(opener.as_bytes());
            }
            out.push(b'x');
            if *closed {
                let c = closer_for(opener);
                for _ in 0..*count {
                    out.extend_from_slice(c.as_bytes());
                }
            }
        }
        PathShape::Mixed { openers, count, closed } => {
            let mut stack = Vec::new();
            for i in 0..*count {
                let o = &openers[i % openers.len()];
                out.extend_from_slice(o.as_bytes());
                stack.push(closer_for(o));
            }
            out.push(b'x');
            if *closed {
                while let Some(c) = stack.pop() {
                    out.extend_from_slice(c.as_bytes());
                }
            }
        }
    }
    out
}

/// Openers of every nesting construct; the longer ones put a completed sibling
/// (or a dotted head) in front of the next level, so that a level is entered
/// right after another one was left.
pub const OPENERS: &[&str] = &[
    "(", "[", "#(", "'", "`", ",", ",@", "(a . ", "(a ", "#(#() ", "(() ", "[[] ", "(#() ", "#(() ", "('a ", "(\"s\" . ",
];

// ---------------------------------------------------------------------------
// Light lexical classifier (reach probes only, never an oracle)

#[derive(Debug, Clone, Copy, PartialEq, Eq, PartialOrd, Ord)]
pub enum Lex {
    Between,
    Comment,
    StringBody,
    StringEscape,
    Utf8Tail,
    AfterHash,
    Token,
    TokenEnd,
    Open,
    Close,
    Quote,
    Dot,
    End,
}

impl Lex {
    pub fn name(self) -> &'static str {
        match self {
            Lex::Between => "between",
            Lex::Comment => "comment",
            Lex::StringBody => "string-body",
            Lex::StringEscape => "string-escape",
            Lex::Utf8Tail => "utf8-tail",
            Lex::AfterHash => "after-hash",
            Lex::Token => "in-token",
            Lex::TokenEnd => "token-end",
            Lex::Open => "after-open",
            Lex::Close => "after-close",
            Lex::Quote => "after-quote",
            Lex::Dot => "after-dot",
            Lex::End => "at-end",
        }
    }
}

/// `state[k]` describes where a fault at offset k lands: the state after
/// reading bytes `0..k`.
pub fn lex_states(input: &[u8]) -> Vec<Lex> {
    let mut out = Vec::with_capacity(input.len() + 1);
    let mut st = Lex::Between;
    let mut in_string = false;
    let mut in_comment = false;
    let mut utf8_left = 0u8;
    for (i, &c) in input.iter().enumerate() {
        out.push(st);
        if utf8_left > 0 && (0x80..0xC0).contains(&c) {
            utf8_left -= 1;
            if utf8_left > 0 {
                st = Lex::Utf8Tail;
            } else {
                st = if in_string { Lex::StringBody } else if in_comment { Lex::Comment } else { Lex::Token };
            }
            continue;
        }
        utf8_left = 0;
        if in_comment {
            if c == b'\n' {
                in_comment = false;
                st = Lex::Between;
            } else {
                st = Lex::Comment;
            }
        } else if in_string {
            if st == Lex::StringEscape {
                st = Lex::StringBody;
            } else if c == b'\\' {
                st = Lex::StringEscape;
            } else if c == b'"' {
                in_string = false;
                st = Lex::Close;
            } else {
                st = Lex::StringBody;
            }
        } else {
            st = match c {
                b' ' | b'\n' | b'\t' | b'\r' | 0x0C => Lex::Between,
                b';' => {
                    in_comment = true;
                    Lex::Comment
                }
                b'"' => {
                    in_string = true;
                    Lex::StringBody
                }
                b'(' | b'[' => Lex::Open,
                b')' | b']' => Lex::Close,
                b'\'' | b'`' | b',' => Lex::Quote,
                b'#' => Lex::AfterHash,
                b'.' if matches!(st, Lex::Between | Lex::Open) => Lex::Dot,
                _ => {
                    let next_is_delim = input
                        .get(i + 1)
                        .map(|n| b" \n\t\r\x0c()[];\"".contains(n))
                        .unwrap_or(true);
                    if next_is_delim {
                        Lex::TokenEnd
                    } else {
                        Lex::Token
                    }
                }
            };
        }
        if c >= 0xC0 {
            utf8_left = if c >= 0xF0 {
                3
            } else if c >= 0xE0 {
                2
            } else {
                1
            };
            st = Lex::Utf8Tail;
        }
    }
    out.push(if out.len() == input.len() && matches!(st, Lex::Between | Lex::Close | Lex::TokenEnd) { Lex::End } else { st });
    out
}

// ---------------------------------------------------------------------------
// W-utf8: every class of UTF-8 sequence in every token kind, escapes adjacent

const UTF8_PIECES: &[&[u8]] = &[
    b"\xc3\xa9", b"\xce\xbb", b"\xe2\x82\xac", b"\xe5\x90\x8d", b"\xf0\x9f\x98\x80", b"\xc2\x80",
    b"\xdf\xbf", b"\xe0\xa0\x80", b"\xef\xbf\xbd", b"\xf0\x90\x80\x80", b"\xf4\x8f\xbf\xbf",
    // ill-formed: overlong, surrogate, out of range, truncated, lone continuation, invalid lead
    b"\xc0\xaf", b"\xc1\xbf", b"\xe0\x80\xaf", b"\xe0\x9f\xbf", b"\xf0\x80\x80\xaf", b"\xf0\x8f\xbf\xbf",
    b"\xed\xa0\x80", b"\xed\xbf\xbf", b"\xf4\x90\x80\x80", b"\xf5\x80\x80\x80", b"\xf7\xbf\xbf\xbf",
    b"\xc3", b"\xe2\x82", b"\xe2", b"\xf0\x9f\x98", b"\xf0\x9f", b"\xf0", b"\x80", b"\xbf",
    b"\xff", b"\xfe", b"\xf8\x88\x80\x80\x80", b"\xc3\x28", b"\xe2\x28\xa1", b"\xf0\x28\x8c\xbc",
];

const R6RS_ESCAPES: &[&[u8]] = &[
    b"\\x41;", b"\\xe9;", b"\\x3bb;", b"\\x1F600;", b"\\xD800;", b"\\xDFFF;", b"\\x110000;",
    b"\\xFFFFFF;", b"\\x80;", b"\\xff;", b"\\n", b"\\\\", b"\\\"", b"\\x0;", b"\\xc3;",
];

const ELISP_ESCAPES: &[&[u8]] = &[
    b"\\x41", b"\\xe9", b"\\xc3", b"\\xa9", b"\\x3bb", b"\\x1F600", b"\\xD800", b"\\x110000",
    b"\\351", b"\\303", b"\\251", b"\\777", b"\\7777777", b"\\u00e9", b"\\uD800", b"\\uDFFF",
    b"\\U0001F600", b"\\U00110000", b"\\U0000D800", b"\\N{U+e9}", b"\\N{U+D800}", b"\\N{U+110000}",
    b"\\^a", b"\\n", b"\\\\", b"\\\"", b"\\ ", b"\\x80", b"\\200", b"\\1000000000", b"\\37777777777", b"\\x1000000000",
];

fn utf8_body(rng: &mut Rng, out: &mut Vec<u8>, escapes: Option<&[&[u8]]>, long: bool, forbid: &[u8]) {
    let n = if long { rng.urange(40, 90) } else { 1 + rng.small(6) };
    for _ in 0..n {
        match rng.below(10) {
            0..=3 => {
                let p = *rng.pick(UTF8_PIECES);
                if !p.iter().any(|c| forbid.contains(c)) {
                    out.extend_from_slice(p);
                }
            }
            4..=5 => {
                if let Some(e) = escapes {
                    out.extend_from_slice(*rng.pick(e));
                } else {
                    out.push(rng.range(b'a'.into(), b'z'.into()) as u8);
                }
            }
            6 => {
                // a valid multi-byte character
                let p = UTF8_PIECES[rng.usize_below(11)];
                out.extend_from_slice(p);
            }
            7 if escapes.is_some() => {
                // a backslash directly in front of a raw (possibly ill-formed) sequence
                // or a single arbitrary byte: the generic "escaped character" arm;
                // sometimes a control byte (a line end, say) sits in between
                out.push(b'\\');
                if rng.chance(1, 3) {
                    out.push(*rng.pick(b"\r\n\t\x0c\x00\x0b "));
                    if rng.chance(1, 3) {
                        out.push(b'\n');
                    }
                }
                if rng.coin() {
                    let p = *rng.pick(UTF8_PIECES);
                    if !p.iter().any(|c| forbid.contains(c)) {
                        out.extend_from_slice(p);
                    }
                } else {
                    out.push(rng.range(0x80, 0xFF) as u8);
                }
            }
            _ => out.push(rng.range(b'a'.into(), b'z'.into()) as u8),
        }
    }
}

pub fn gen_utf8_text(rng: &mut Rng, f: ParseFields, valid_only: bool) -> Vec<u8> {
    let mut out = Vec::new();
    let n = 1 + rng.small(5);
    for i in 0..n {
        if i > 0 {
            out.push(*rng.pick(b"  \n\t"));
        }
        let long = rng.chance(1, 10);
        match rng.below(12) {
            0..=2 => utf8_body(rng, &mut out, None, long, b"()"),
            3..=6 => {
                out.push(b'"');
                let esc = if f.string == 0 { R6RS_ESCAPES } else { ELISP_ESCAPES };
                utf8_body(rng, &mut out, Some(esc), long, b"\"");
                if !rng.chance(1, 12) {
                    out.push(b'"');
                }
            }
            7 => {
                if f.chr == 1 && rng.coin() {
                    out.push(b'?');
                    if rng.coin() {
                        out.push(b'\\');
                    }
                } else {
                    out.extend_from_slice(b"#\\");
                }
                out.extend_from_slice(*rng.pick(UTF8_PIECES));
            }
            8 => {
                out.push(b';');
                utf8_body(rng, &mut out, None, false, b"\n");
                out.push(b'\n');
            }
            9 => {
                out.extend_from_slice(*rng.pick(&[&b"#:"[..], b":", b"k"]));
                utf8_body(rng, &mut out, None, false, b"()");
                if rng.coin() {
                    out.push(b':');
                }
            }
            10 => {
                out.push(b'(');
                utf8_body(rng, &mut out, None, false, b"()");
                out.push(b' ');
                out.push(b'"');
                utf8_body(rng, &mut out, None, false, b"\"");
                out.extend_from_slice(b"\")");
            }
            _ => {
                out.extend_from_slice(b"#\\x");
                out.extend_from_slice(*rng.pick(&[&b"e9"[..], b"D800", b"110000", b"3bb", b"FFFFFFFF", b"0"]));
            }
        }
    }
    if valid_only {
        return String::from_utf8_lossy(&out).into_owned().into_bytes();
    }
    out
}

/// Offsets that fall strictly inside a multi-byte sequence (lead byte seen,
/// continuation pending): where W-utf8 aims its read faults.
pub fn offsets_inside_multibyte(input: &[u8]) -> Vec<usize> {
    let lex = lex_states(input);
    (0..lex.len()).filter(|k| lex[*k] == Lex::Utf8Tail).collect()
}


// ---------------------------------------------------------------------------
// Long tokens: lengths around the capacities and counters a reader may have

pub const LONG_LENGTHS: &[usize] = &[127, 128, 129, 255, 256, 257, 4095, 4096, 4097, 8191, 8192, 8193, 65535, 65536, 65537, 100_000];

/// One datum made of (or containing) a single very long token, followed by a
/// short second datum so that the boundary after the long token is exercised.
pub fn gen_long_token_text(rng: &mut Rng, f: ParseFields) -> Vec<u8> {
    let n = *rng.pick(LONG_LENGTHS);
    let mut out = Vec::with_capacity(n + 32);
    let wrap = rng.chance(1, 3);
    if wrap {
        out.extend_from_slice(b"(a ");
    }
    match rng.below(7) {
        0 => {
            // symbol, optionally with multi-byte characters
            let multi = rng.coin();
            while out.len() < n {
                if multi && rng.chance(1, 7) {
                    out.extend_from_slice("λ".as_bytes());
                } else {
                    out.push(b'a' + rng.below(26) as u8);
                }
            }
        }
        1 => {
            out.push(b'"');
            let multi = rng.coin();
            for i in 0..n {
                if multi && i % 11 == 3 {
                    out.extend_from_slice("é".as_bytes());
                } else if i % 97 == 5 {
                    out.extend_from_slice(if f.string == 0 { &b"\\x41;"[..] } else { &b"\\101"[..] });
                } else {
                    out.push(b'b');
                }
            }
            out.push(b'"');
        }
        2 => {
            // digits: far beyond u64 and beyond f64 range
            for i in 0..n {
                out.push(if i == 0 { b'1' } else { b'0' + rng.below(10) as u8 });
            }
            if rng.coin() {
                out.extend_from_slice(b".5");
            }
        }
        3 => {
            out.extend_from_slice(b"1.");
            for _ in 0..n {
                out.push(b'0' + rng.below(10) as u8);
            }
            out.extend_from_slice(b"e3");
        }
        4 => {
            out.push(b';');
            for _ in 0..n {
                out.push(b'c');
            }
            out.push(b'\n');
            out.extend_from_slice(b"after-comment");
        }
        5 => {
            out.extend_from_slice(b"#u8(");
            for i in 0..n / 4 {
                if i > 0 {
                    out.push(b' ');
                }
                out.extend_from_slice((i % 256).to_string().as_bytes());
            }
            out.push(b')');
        }
        _ => {
            // keyword / character-name shaped long tokens
            out.extend_from_slice(*rng.pick(&[&b"#:"[..], b":", b"#\\", b"#\\x", b"?"]));
            for _ in 0..n {
                out.push(*rng.pick(b"abcdef0123456789"));
            }
        }
    }
    if wrap {
        out.extend_from_slice(b" z)");
    }
    out.extend_from_slice(*rng.pick(&[&b" tail"[..], b"\ntail", b"(tail)", b"", b";c"]));
    out
}
