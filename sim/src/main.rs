mod engine;
mod hist;
mod opts;
mod outcome;
mod prng;
mod runner;
mod selftest;
#[cfg(feature = "serde-client")]
mod serdecl;
mod shrink;
mod sink;
mod stream;
mod text;
mod val;
mod world;

use engine::Tier;
use std::path::PathBuf;

fn tier_of(s: &str) -> Tier {
    match s {
        "thorough" => Tier::Thorough,
        _ => Tier::Quick,
    }
}

/// Everything that executes lexpr runs on a thread with the stack size Rust
/// gives spawned threads by default (2 MiB), as an application would.
fn on_small_stack(f: impl FnOnce() -> i32 + Send + 'static) -> i32 {
    std::thread::Builder::new()
        .stack_size(2 * 1024 * 1024)
        .spawn(f)
        .expect("spawn")
        .join()
        .unwrap_or(2)
}

fn usage() -> i32 {
    eprintln!("usage: simctl check <C03|C06|C07|C12|C17|C19> <quick|thorough>");
    eprintln!("       simctl replay <file>");
    eprintln!("       simctl selftest determinism <property> [runs]");
    2
}

fn main() {
    let args: Vec<String> = std::env::args().collect();
    let exe = std::env::current_exe().unwrap_or_else(|_| PathBuf::from(&args[0]));
    let code = match args.get(1).map(String::as_str) {
        Some("check") if args.len() >= 3 => {
            let tier = std::env::var("VERIF_TIER").ok().map(|t| tier_of(&t)).unwrap_or_else(|| tier_of(args.get(3).map(String::as_str).unwrap_or("quick")));
            let tier = if args.len() >= 4 { tier_of(&args[3]) } else { tier };
            runner::check(&exe, &args[2], tier)
        }
        Some("worker") if args.len() >= 8 => {
            let prop = args[2].clone();
            let tier = tier_of(&args[3]);
            let nums: Vec<u64> = args[4..8].iter().map(|s| s.parse().unwrap_or(0)).collect();
            let skip: Vec<u64> = args.get(8).map(|s| s.split(',').filter_map(|x| x.parse().ok()).collect()).unwrap_or_default();
            on_small_stack(move || runner::worker_main(&prop, tier, nums[0], nums[1], nums[2], nums[3], &skip))
        }
        Some("one") if args.len() >= 7 => {
            let prop = args[2].clone();
            let tier = tier_of(&args[3]);
            let seed: u64 = args[4].parse().unwrap_or(0);
            let index: u64 = args[5].parse().unwrap_or(0);
            let f = PathBuf::from(&args[6]);
            on_small_stack(move || runner::one_main(&prop, tier, seed, index, &f))
        }
        Some("replay") if args.len() >= 3 => {
            let p = PathBuf::from(&args[2]);
            on_small_stack(move || runner::replay(&exe, &p))
        }
        Some("replay-case") if args.len() >= 3 => {
            let p = PathBuf::from(&args[2]);
            on_small_stack(move || runner::replay_case(&p))
        }
        Some("selftest") if args.len() >= 4 && args[2] == "determinism" => {
            let runs = args.get(4).and_then(|s| s.parse().ok()).unwrap_or(20_000);
            selftest::determinism(&exe, &args[3], runs)
        }
        _ => usage(),
    };
    std::process::exit(code);
}
