//! Determinism self-test: the same seeds at 1, 4 and 16 workers, twice, must
//! give identical digests, counters and tuple sets.

use crate::engine::Tier;
use crate::runner::run_batch;
use std::path::Path;

pub fn determinism(exe: &Path, prop: &str, runs: u64) -> i32 {
    let seed: u64 = std::env::var("VERIF_SEED").ok().and_then(|s| s.parse().ok()).unwrap_or(0);
    let mut reference: Option<(u64, String, usize, u64)> = None;
    let mut ok = true;
    for (round, workers) in [(0, 1u64), (1, 4), (2, 16), (3, 16), (4, 7)] {
        let (agg, crashes) = match run_batch(exe, prop, Tier::Quick, seed, runs, workers) {
            Ok(x) => x,
            Err(e) => {
                eprintln!("harness error: {}", e);
                return 2;
            }
        };
        let counters = serde_json::to_string(&agg.counters).unwrap_or_default();
        // hook counters are per process and order-free as sums; they are part of the comparison
        let sig = (agg.digest, counters, agg.tuples.len(), agg.evaluations);
        println!(
            "determinism {} round {} workers {:>2}: runs {} evaluations {} tuples {} digest {:016x} crashes {}",
            prop,
            round,
            workers,
            agg.runs,
            agg.evaluations,
            agg.tuples.len(),
            agg.digest,
            crashes.len()
        );
        match &reference {
            None => reference = Some(sig),
            Some(r) => {
                if *r != sig {
                    ok = false;
                    println!("  MISMATCH against round 0");
                    if r.1 != sig.1 {
                        let a: std::collections::BTreeMap<String, u64> = serde_json::from_str(&r.1).unwrap_or_default();
                        let b: std::collections::BTreeMap<String, u64> = serde_json::from_str(&sig.1).unwrap_or_default();
                        for (k, v) in &a {
                            if b.get(k) != Some(v) {
                                println!("    counter {}: {} vs {:?}", k, v, b.get(k));
                            }
                        }
                    }
                }
            }
        }
    }
    if ok {
        println!("determinism {}: OK", prop);
        0
    } else {
        1
    }
}
