//! The Serde front end as one more client of the stream world (E-STREAM).
//!
//! `serde_lexpr::from_reader_custom` is `lexpr::from_reader_custom` followed by a
//! conversion of the value; its error type wraps the parser's error and has its
//! own documented conversion to `io::Error` ("syntax -> InvalidData, EOF ->
//! UnexpectedEof", and the documentation's own example converts an I/O-category
//! error with `err.into()`). The client replays the scripted reader of a stream
//! case through that front end and checks, against the result the plain parser
//! gave on the same script:
//!
//!   S1 (C06, O6.2 through the front end)  where the parser reported the injected
//!      read error, the front end reports an error of category Io as well - the
//!      failure is not swallowed or turned into another category on the way up;
//!   S2 (C19, O19.2 through the front end)  converting the front end's error to
//!      `io::Error` returns (no panic), with kind InvalidData for syntax/data,
//!      UnexpectedEof for EOF, and the very error that was injected for I/O;
//!   S3 (C19, O19.3 through the front end) a syntax/EOF error carries a location
//!      inside the bytes delivered (first written as "the parser's location",
//!      which a behaviour-preserving refactor - read the stream into memory,
//!      parse the slice - rightly tripped: the two readers count columns
//!      differently and the statement only asks for in-bounds).
//!
//! The target type is `serde::de::IgnoredAny`: the conversion step accepts or
//! rejects (category Data) whatever the parser returned; neither outcome is
//! judged.

use std::io;
use std::rc::Rc;

use crate::opts;
use crate::outcome::{beat, guarded, Abnormal, Cat, Mon, PRes};
use crate::stream::StreamCase;
use crate::world::{self, with_adapter, ReadShared, SimReader, WithReader};

struct SerdeRunner {
    opts: lexpr::parse::Options,
    shared: Rc<ReadShared>,
}

type SerdeOut = Result<Result<(), serde_lexpr::Error>, Abnormal>;

impl WithReader for SerdeRunner {
    type Out = SerdeOut;
    fn call<R: io::Read>(self, reader: R) -> Self::Out {
        self.shared.begin_op();
        let opts = self.opts;
        guarded(|| serde_lexpr::from_reader_custom::<serde::de::IgnoredAny>(reader, opts).map(|_| ()))
    }
}

/// `reference` is what `lexpr::from_reader_custom` returned on the same script.
pub fn check_serde_client(case: &StreamCase, reference: &PRes, mon: &mut Mon) {
    let mut sim = SimReader::new(&case.input, &case.plan);
    let shared = sim.shared.clone();
    beat();
    mon.evaluations += 1;
    let runner = SerdeRunner { opts: opts::parse_options(case.opts), shared: shared.clone() };
    let out = with_adapter(&case.input, &case.plan, &mut sim, runner);
    mon.steps += shared.calls.get();
    let fired = shared.fired.borrow().clone();
    let ctx = || format!("serde_lexpr::from_reader_custom, opts[{}] input={:?}", opts::describe_parse(case.opts), crate::text::show(&case.input));
    let err = match out {
        Err(ab) => {
            crate::outcome::report_abnormal(mon, &ab, "serde front end over the stream source");
            return;
        }
        Ok(Ok(())) => {
            if let Err(e) = reference {
                if e.cat == Cat::Io && e.io_id.is_some() {
                    mon.violate(
                        "C06",
                        "O6.2",
                        "serde front end succeeds although the read failed".into(),
                        format!("{}: the parser reported the injected read error, the front end returned Ok; fired {:?}", ctx(), fired),
                    );
                }
            }
            mon.count("serde.ok");
            return;
        }
        Ok(Err(e)) => e,
    };
    use serde_lexpr::error::Category;
    let cat = err.classify();
    let loc = err.location().map(|l| (l.line(), l.column()));
    let full = err.to_string();
    if let Err(e) = reference {
        if e.cat == Cat::Io && e.io_id.is_some() && cat != Category::Io {
            mon.violate(
                "C06",
                "O6.2",
                "serde front end turns the read error into another category".into(),
                format!("{}: parser reported the injected read error, front end reports {:?} ({:?})", ctx(), cat, full),
            );
        }
    }
    if matches!(cat, Category::Syntax | Category::Eof) {
        // like every syntax/EOF error, the front end's carries a location inside the
        // bytes that were delivered (not necessarily the plain parser's own: a front
        // end that reads the stream into memory first reports the slice reader's)
        let seen = crate::outcome::Seen::prefix(&case.input, shared.delivered.get().min(case.input.len()));
        match loc {
            None => mon.violate(
                "C19",
                "O19.3",
                format!("serde front end: {:?} error without a location", cat),
                format!("{}: {:?} has no location", ctx(), full),
            ),
            Some((l, c)) if !crate::outcome::loc_in_bounds(&seen, l, c) => mon.violate(
                "C19",
                "O19.3",
                "serde front end: location out of bounds".into(),
                format!("{}: error {:?} reports line {} column {}, outside the {} bytes seen", ctx(), full, l, c, seen.len),
            ),
            Some(_) => {}
        }
    }
    beat();
    let conv = guarded(move || -> io::Error { err.into() });
    match conv {
        Err(ab) => {
            let msg = match &ab {
                Abnormal::Panic(m) => m.clone(),
                Abnormal::Budget => "budget".into(),
            };
            mon.violate(
                "C19",
                "O19.2",
                format!("converting a {:?}-category serde_lexpr error to io::Error panics", cat),
                format!("{}: io::Error::from({:?}) panicked: {}", ctx(), full, msg),
            );
        }
        Ok(ioe) => {
            let want = match cat {
                Category::Syntax | Category::Data => Some(io::ErrorKind::InvalidData),
                Category::Eof => Some(io::ErrorKind::UnexpectedEof),
                Category::Io => None,
            };
            match want {
                Some(k) => {
                    if ioe.kind() != k {
                        mon.violate(
                            "C19",
                            "O19.2",
                            format!("serde_lexpr {:?} error converts to wrong io kind", cat),
                            format!("{}: {:?} converts to {:?}", ctx(), full, ioe.kind()),
                        );
                    }
                }
                None => {
                    if world::fired_id(&ioe, &fired).is_none() {
                        mon.violate(
                            "C19",
                            "O19.2",
                            "serde_lexpr I/O error does not convert back to the injected error".into(),
                            format!("{}: Io-category error {:?} converts to kind {:?}; fired faults: {:?}", ctx(), full, ioe.kind(), fired),
                        );
                    }
                }
            }
        }
    }
    mon.count(match cat {
        Category::Io => "serde.err.io",
        Category::Syntax => "serde.err.syntax",
        Category::Eof => "serde.err.eof",
        Category::Data => "serde.err.data",
    });
}
