//! E-SINK: the printer writing into a scripted sink (C07), with the printer
//! side of the C17 monitor riding along.

use crate::engine::{AnyCase, Found, TAG_C07};
use crate::opts;
use crate::outcome::*;
use crate::prng::{run_seed, Rng};
use crate::text::{self, hex};
use crate::val::{self, ValMask, V};
use crate::world::*;
use lexpr::print::Options as PrintOptions;
use lexpr::{Printer, Value};
use serde::{Deserialize, Serialize};
use std::cell::RefCell;
use std::fmt::Write as _;
use std::io::{self, Write as _};
use std::rc::Rc;

#[derive(Debug, Clone, PartialEq, Serialize, Deserialize)]
pub enum SinkOp {
    Print(usize),
    Raw(#[serde(with = "hex")] Vec<u8>),
    Flush,
}

#[derive(Debug, Clone, PartialEq, Serialize, Deserialize)]
pub enum Entry {
    /// `lexpr::to_writer` (default formatter).
    ToWriter,
    /// `lexpr::to_writer_custom`.
    ToWriterCustom,
    /// `Printer::new(w).print(v)`.
    PrinterNew,
    /// `Printer::with_options(w, o).print(v)`.
    PrinterWithOptions,
    /// One long-lived printer, several operations. `custom` selects the formatter.
    History { custom: bool, ops: Vec<SinkOp> },
    /// `write!(sink, "{}", value)` through a `fmt::Write` sink.
    Display,
    /// `serde_lexpr::to_writer` of a `Serialize` view of the value (the Serde
    /// front end is `to_value` + `lexpr::to_writer`; its reference text is what
    /// `serde_lexpr::to_vec` gives for the same view).
    SerdeToWriter,
    /// `serde_lexpr::to_writer_custom`.
    SerdeToWriterCustom,
}

impl Entry {
    fn name(&self) -> &'static str {
        match self {
            Entry::ToWriter => "to_writer",
            Entry::ToWriterCustom => "to_writer_custom",
            Entry::PrinterNew => "Printer::new",
            Entry::PrinterWithOptions => "Printer::with_options",
            Entry::History { .. } => "printer-history",
            Entry::Display => "Display",
            Entry::SerdeToWriter => "serde_lexpr::to_writer",
            Entry::SerdeToWriterCustom => "serde_lexpr::to_writer_custom",
        }
    }
    fn is_serde(&self) -> bool {
        matches!(self, Entry::SerdeToWriter | Entry::SerdeToWriterCustom)
    }
    fn default_formatter(&self) -> bool {
        match self {
            Entry::ToWriter | Entry::PrinterNew | Entry::Display => true,
            Entry::History { custom, .. } => !custom,
            _ => false,
        }
    }
}

#[derive(Debug, Clone, PartialEq, Serialize, Deserialize)]
pub struct SinkCase {
    pub popts: u32,
    pub values: Vec<V>,
    pub entry: Entry,
    pub plan: WritePlan,
    pub fmt: Option<FmtPlan>,
}

struct SharedWriter(Rc<RefCell<SimWriter>>);

impl io::Write for SharedWriter {
    fn write(&mut self, buf: &[u8]) -> io::Result<usize> {
        self.0.borrow_mut().write(buf)
    }
    fn write_vectored(&mut self, bufs: &[io::IoSlice<'_>]) -> io::Result<usize> {
        self.0.borrow_mut().write_vectored(bufs)
    }
    fn flush(&mut self) -> io::Result<()> {
        self.0.borrow_mut().flush()
    }
}

/// A `Serialize` view of a lexpr value for the Serde front end: the data model
/// counterpart of each variant (symbols and keywords go as strings, a dotted
/// tail as one more element).
#[cfg(feature = "serde-client")]
struct Ser<'a>(&'a Value);

#[cfg(feature = "serde-client")]
impl serde::Serialize for Ser<'_> {
    fn serialize<S: serde::Serializer>(&self, s: S) -> Result<S::Ok, S::Error> {
        use serde::ser::SerializeSeq;
        match self.0 {
            Value::Nil | Value::Null => s.serialize_unit(),
            Value::Bool(b) => s.serialize_bool(*b),
            Value::Number(n) => {
                if let Some(u) = n.as_u64() {
                    s.serialize_u64(u)
                } else if let Some(i) = n.as_i64() {
                    s.serialize_i64(i)
                } else {
                    s.serialize_f64(n.as_f64().unwrap_or(0.0))
                }
            }
            Value::Char(c) => s.serialize_char(*c),
            Value::String(x) => s.serialize_str(x),
            Value::Symbol(x) => s.serialize_str(x),
            Value::Keyword(x) => s.serialize_str(x),
            Value::Bytes(b) => s.serialize_bytes(b),
            Value::Cons(c) => {
                let mut seq = s.serialize_seq(None)?;
                let mut cur = c;
                loop {
                    seq.serialize_element(&Ser(cur.car()))?;
                    match cur.cdr() {
                        Value::Cons(next) => cur = next,
                        Value::Null => break,
                        tail => {
                            seq.serialize_element(&Ser(tail))?;
                            break;
                        }
                    }
                }
                seq.end()
            }
            Value::Vector(items) => {
                let mut seq = s.serialize_seq(Some(items.len()))?;
                for it in items.iter() {
                    seq.serialize_element(&Ser(it))?;
                }
                seq.end()
            }
        }
    }
}

/// Reference text of a single-value entry point; `None` when the Serde front
/// end cannot represent the value at all (nothing is written then either).
fn reference_for(entry: &Entry, v: &Value, popts: PrintOptions) -> Option<Vec<u8>> {
    match entry {
        #[cfg(feature = "serde-client")]
        Entry::SerdeToWriter => guarded(|| serde_lexpr::to_vec(&Ser(v)).ok()).ok().flatten(),
        #[cfg(feature = "serde-client")]
        Entry::SerdeToWriterCustom => guarded(|| serde_lexpr::to_vec_custom(&Ser(v), popts).ok()).ok().flatten(),
        #[cfg(not(feature = "serde-client"))]
        Entry::SerdeToWriter => Some(reference(v, true, popts)),
        _ => Some(reference(v, entry.default_formatter(), popts)),
    }
}

fn reference(v: &Value, default_formatter: bool, popts: PrintOptions) -> Vec<u8> {
    // the reference text is what printing into memory gives (to_vec is to_string
    // without the unchecked conversion, which M17.4 checks separately)
    let r = if default_formatter { lexpr::to_vec(v) } else { lexpr::to_vec_custom(v, popts) };
    r.unwrap_or_default()
}

pub fn emission_class(t: &[u8], j: usize) -> &'static str {
    if j >= t.len() {
        return "end";
    }
    let mut in_string = false;
    let mut esc = false;
    for &c in &t[..j] {
        if in_string {
            if esc {
                esc = false;
            } else if c == b'\\' {
                esc = true;
            } else if c == b'"' {
                in_string = false;
            }
        } else if c == b'"' {
            in_string = true;
        }
    }
    let c = t[j];
    if in_string {
        if esc || c == b'\\' {
            return "string-escape";
        }
        if c == b'"' {
            return "string-quote";
        }
        return if c >= 0x80 { "string-multibyte" } else { "string-fragment" };
    }
    match c {
        b'"' => "string-quote",
        b'(' | b')' | b'[' | b']' => "paren",
        b' ' => "space",
        b'#' => "sigil",
        b'.' if j + 1 < t.len() && t[j + 1] == b' ' => "dot",
        b'0'..=b'9' | b'-' | b'+' | b'.' | b'e' | b'E' => {
            // find token extent
            let start = t[..j].iter().rposition(|c| b" ()[]".contains(c)).map(|p| p + 1).unwrap_or(0);
            let end = t[j..].iter().position(|c| b" ()[]".contains(c)).map(|p| j + p).unwrap_or(t.len());
            let tok = &t[start..end];
            if tok.first().map(|c| c.is_ascii_digit() || *c == b'-').unwrap_or(false) && tok.iter().all(|c| b"0123456789-+.eE".contains(c)) {
                if tok.iter().any(|c| b".eE".contains(c)) {
                    "float"
                } else {
                    "integer-digits"
                }
            } else {
                "symbol"
            }
        }
        b'?' | b'\\' => "char",
        b':' => "keyword-sigil",
        _ => "symbol",
    }
}

fn is_prefix(p: &[u8], t: &[u8]) -> bool {
    p.len() <= t.len() && &t[..p.len()] == p
}

struct OneShot {
    result_ok: bool,
    err_text: String,
    delivered: Vec<u8>,
    fired: Vec<Fired>,
    interrupts_fired: u64,
    short_writes: u64,
    calls: u64,
    abnormal: Option<Abnormal>,
    calls_log: Vec<String>,
}

/// Run a single-value entry point under a write plan.
fn run_single(entry: &Entry, value: &Value, popts: PrintOptions, plan: &WritePlan, expected_len: usize, trace: bool) -> OneShot {
    let mut sim = SimWriter::new(plan);
    sim.trace = trace;
    sim.begin_op(expected_len);
    let r: Result<io::Result<()>, Abnormal> = {
        let sim_ref = &mut sim;
        guarded(move || {
            fn go<W: io::Write>(entry: &Entry, w: W, value: &Value, popts: PrintOptions) -> io::Result<()> {
                match entry {
                    Entry::ToWriter => lexpr::to_writer(w, value),
                    Entry::ToWriterCustom => lexpr::to_writer_custom(w, value, popts),
                    // a value with an odd number of top-level elements goes through a
                    // caller's own `Formatter` that overrides nothing (the trait's default
                    // methods are the default syntax), and through `into_inner`
                    Entry::PrinterNew if value.list_iter().map_or(false, |l| l.count() % 2 == 1) => {
                        struct Own;
                        impl lexpr::print::Formatter for Own {}
                        let mut p = Printer::with_formatter(w, Own);
                        let r = p.print(value);
                        let _ = p.into_inner();
                        r
                    }
                    Entry::PrinterNew => Printer::new(w).print(value),
                    Entry::PrinterWithOptions => Printer::with_options(w, popts).print(value),
                    #[cfg(feature = "serde-client")]
                    Entry::SerdeToWriter => serde_lexpr::to_writer(w, &Ser(value)).map_err(io::Error::from),
                    #[cfg(feature = "serde-client")]
                    Entry::SerdeToWriterCustom => serde_lexpr::to_writer_custom(w, &Ser(value), popts).map_err(io::Error::from),
                    // a build without the Serde front end runs the plain entry points
                    #[cfg(not(feature = "serde-client"))]
                    Entry::SerdeToWriter => lexpr::to_writer(w, value),
                    #[cfg(not(feature = "serde-client"))]
                    Entry::SerdeToWriterCustom => lexpr::to_writer_custom(w, value, popts),
                    _ => unreachable!(),
                }
            }
            match plan.adapter {
                WriteAdapter::Direct => go(entry, sim_ref, value, popts),
                WriteAdapter::DynRef => {
                    let w: &mut dyn io::Write = sim_ref;
                    go(entry, w, value, popts)
                }
                WriteAdapter::BufWriter { cap } => {
                    let mut bw = io::BufWriter::with_capacity(cap.max(1), sim_ref);
                    let r = go(entry, &mut bw, value, popts);
                    let f = bw.flush();
                    let _ = bw.into_parts();
                    r.and(f)
                }
            }
        })
    };
    let (result_ok, err_text, abnormal) = match r {
        Ok(Ok(())) => (true, String::new(), None),
        Ok(Err(e)) => (false, format!("{:?}: {}", e.kind(), e), None),
        Err(ab) => (false, format!("{:?}", ab), Some(ab)),
    };
    OneShot {
        result_ok,
        err_text,
        delivered: sim.delivered,
        fired: sim.fired,
        interrupts_fired: sim.interrupts_fired,
        short_writes: sim.short_writes,
        calls: sim.calls,
        abnormal,
        calls_log: sim.calls_log,
    }
}

fn adapter_name(a: &WriteAdapter) -> &'static str {
    match a {
        WriteAdapter::Direct => "direct",
        WriteAdapter::DynRef => "dyn",
        WriteAdapter::BufWriter { .. } => "bufwriter",
    }
}

fn judge_single(case: &SinkCase, t: &[u8], run: &OneShot, mon: &mut Mon, ctx: &str) {
    mon.steps += run.calls;
    mon.add("write.short_writes", run.short_writes);
    mon.add("write.interrupts_fired", run.interrupts_fired);
    mon.digest = crate::prng::fnv(&run.delivered) ^ mon.digest.rotate_left(5) ^ u64::from(run.result_ok);
    if let Some(ab) = &run.abnormal {
        report_abnormal(mon, ab, ctx);
        return;
    }
    let entry = case.entry.name();
    let adapter = adapter_name(&case.plan.adapter);
    if let Some(f) = run.fired.first() {
        // O7.3
        let class = emission_class(t, f.at);
        let kind = match f.hard {
            Some(k) => k.name(),
            None => "Zero",
        };
        mon.count(if f.hard.is_some() { "c07.hard_fired" } else { "c07.zero_fired" });
        mon.count_dyn(format!("write_fault_fired.{}", kind));
        if f.hard.is_some() {
            mon.count(match f.payload {
                Payload::Custom => "write_fault_payload.custom",
                Payload::Bare => "write_fault_payload.bare",
                Payload::Os(_) => "write_fault_payload.raw_os_error",
            });
        }
        mon.tuple(format!("fault|{}|{}|{}|{}|{}", class, kind, adapter, entry, if run.result_ok { "ok" } else { "err" }));
        mon.count_dyn(format!("write_fault_in.{}", class));
        if run.result_ok {
            mon.violate(
                "C07",
                "O7.3",
                format!("write failure swallowed: print returned Ok although the sink {} [{}]", if f.hard.is_some() { "returned an error" } else { "stopped accepting bytes" }, class),
                format!("{}: sink fault {} at offset {} (in {}), print returned Ok, delivered {:?} of {:?}", ctx, kind, f.at, class, text::show(&run.delivered), text::show(t)),
            );
        }
        if !is_prefix(&run.delivered, t) {
            mon.violate(
                "C07",
                "O7.3",
                format!("delivered bytes are not a prefix of the text after a sink fault [{}]", class),
                format!("{}: sink fault {} at {}, delivered {:?}, expected a prefix of {:?}", ctx, kind, f.at, text::show(&run.delivered), text::show(t)),
            );
        }
    } else if run.interrupts_fired > 0 {
        // O7.4
        mon.count("c07.interrupt_runs");
        let ok = (run.result_ok && run.delivered == t) || (!run.result_ok && is_prefix(&run.delivered, t));
        mon.tuple(format!("interrupt|{}|{}|{}", adapter, entry, if run.result_ok { "ok" } else { "err" }));
        if !ok {
            mon.violate(
                "C07",
                "O7.4",
                "wrong bytes delivered around an Interrupted write".into(),
                format!("{}: result ok={} ({}), delivered {:?}, text {:?}", ctx, run.result_ok, run.err_text, text::show(&run.delivered), text::show(t)),
            );
        }
    } else {
        // O7.1
        mon.count("c07.benign_runs");
        if run.short_writes > 0 {
            let class = first_short_class(t, &run.delivered);
            mon.tuple(format!("short|{}|{}|{}", adapter, entry, class));
        }
        if !run.result_ok {
            mon.violate(
                "C07",
                "O7.1",
                "print fails although the sink never failed".into(),
                format!("{}: error {} with a sink that only short-writes", ctx, run.err_text),
            );
        } else if run.delivered != t {
            let at = run.delivered.iter().zip(t).position(|(a, b)| a != b).unwrap_or(run.delivered.len().min(t.len()));
            let class = emission_class(t, at);
            mon.violate(
                "C07",
                "O7.1",
                format!("short-writing sink received different bytes [{}]", class),
                format!("{}: delivered {:?} but the text is {:?} (first difference at {}, in {})", ctx, text::show(&run.delivered), text::show(t), at, class),
            );
        }
    }
}

fn first_short_class(t: &[u8], _delivered: &[u8]) -> &'static str {
    // cheap stand-in: the class of the first multi-byte emission
    for j in 0..t.len() {
        let c = emission_class(t, j);
        if c != "paren" && c != "space" {
            return c;
        }
    }
    "paren"
}

fn check_history(case: &SinkCase, custom: bool, ops: &[SinkOp], mon: &mut Mon, ctx: &str) {
    let popts = opts::print_options(case.popts);
    let values: Vec<Value> = case.values.iter().map(V::to_value).collect();
    let texts: Vec<Vec<u8>> = values.iter().map(|v| reference(v, !custom, popts)).collect();
    let total: usize = ops
        .iter()
        .map(|o| match o {
            SinkOp::Print(i) => texts.get(*i).map(Vec::len).unwrap_or(0),
            SinkOp::Raw(b) => b.len(),
            SinkOp::Flush => 0,
        })
        .sum();
    let sim = Rc::new(RefCell::new(SimWriter::new(&case.plan)));
    sim.borrow_mut().begin_op(total + 64 * ops.len());
    sim.borrow_mut().trace = mon.keep_log;
    enum P {
        D(Printer<SharedWriter>),
        C(Printer<SharedWriter, lexpr::print::CustomizedFormatter>),
    }
    let mut printer = if custom {
        P::C(Printer::with_options(SharedWriter(sim.clone()), popts))
    } else {
        P::D(Printer::new(SharedWriter(sim.clone())))
    };
    for (n, op) in ops.iter().enumerate() {
        let (before_len, before_fired, before_ints, before_flushes) = {
            let s = sim.borrow();
            (s.delivered.len(), s.fired.len(), s.interrupts_fired, s.flushes)
        };
        match op {
            SinkOp::Print(i) => {
                let Some(v) = values.get(*i) else { continue };
                let t = &texts[*i];
                let r = guarded(|| match &mut printer {
                    P::D(p) => p.print(v),
                    P::C(p) => p.print(v),
                });
                let s = sim.borrow();
                let grew = &s.delivered[before_len..];
                let fired_now = s.fired.len() > before_fired;
                let ints_now = s.interrupts_fired > before_ints;
                mon.steps += 1;
                match r {
                    Err(ab) => {
                        report_abnormal(mon, &ab, ctx);
                        return;
                    }
                    Ok(res) => {
                        let ok = res.is_ok();
                        if fired_now {
                            let f = &s.fired[before_fired];
                            mon.count("c07.history_fault_ops");
                            mon.tuple(format!("history-fault|{}|{}", emission_class(t, f.at - before_len.min(f.at)), if ok { "ok" } else { "err" }));
                            if ok {
                                mon.violate("C07", "O7.3", "write failure swallowed: print returned Ok although the sink failed [history]".into(), format!("{}: op {} print returned Ok, sink fault at {}", ctx, n, f.at));
                            }
                            if !is_prefix(grew, t) {
                                mon.violate("C07", "O7.3", "delivered bytes are not a prefix of the text after a sink fault [history]".into(), format!("{}: op {} delivered {:?} of {:?}", ctx, n, text::show(grew), text::show(t)));
                            }
                        } else if ints_now {
                            if !((ok && grew == &t[..]) || (!ok && is_prefix(grew, t))) {
                                mon.violate("C07", "O7.4", "wrong bytes delivered around an Interrupted write".into(), format!("{}: op {} delivered {:?} of {:?}", ctx, n, text::show(grew), text::show(t)));
                            }
                        } else if !ok {
                            mon.violate("C07", "O7.1", "print fails although the sink never failed".into(), format!("{}: op {} error {:?}", ctx, n, res));
                        } else if grew != &t[..] {
                            mon.violate("C07", "O7.1", "short-writing sink received different bytes [history]".into(), format!("{}: op {} delivered {:?} but the text is {:?}", ctx, n, text::show(grew), text::show(t)));
                        }
                    }
                }
            }
            SinkOp::Raw(bytes) => {
                sim.borrow_mut().last_answer = None;
                let r = guarded(|| match &mut printer {
                    P::D(p) => p.write(bytes),
                    P::C(p) => p.write(bytes),
                });
                let s = sim.borrow();
                let grew = &s.delivered[before_len..];
                mon.steps += 1;
                mon.count("c07.passthrough_ops");
                let bad = |mon: &mut Mon, what: String| {
                    mon.violate("C07", "O7.5", "Printer::write passthrough misreports what the sink did".into(), format!("{}: op {} {}", ctx, n, what));
                };
                match (r, s.last_answer.clone()) {
                    (Err(ab), _) => {
                        report_abnormal(mon, &ab, ctx);
                        return;
                    }
                    (Ok(Ok(k)), Some(WriteAnswer::Accepted(a))) => {
                        if k != a || grew != &bytes[..a] {
                            bad(mon, format!("returned Ok({}) but the sink accepted {} bytes: {:?}", k, a, text::show(grew)));
                        }
                    }
                    (Ok(Ok(k)), Some(WriteAnswer::Zero)) => {
                        if k != 0 || !grew.is_empty() {
                            bad(mon, format!("returned Ok({}) but the sink accepted nothing", k));
                        }
                    }
                    (Ok(Err(e)), Some(WriteAnswer::Interrupted)) => {
                        if e.kind() != io::ErrorKind::Interrupted || !grew.is_empty() {
                            bad(mon, format!("sink said Interrupted, caller saw {:?}", e.kind()));
                        }
                    }
                    (Ok(Err(e)), Some(WriteAnswer::Hard(k, id, payload))) => {
                        let f = Fired { id, at: 0, hard: Some(k), call: 0, payload };
                        if !is_fired(&e, &f) || !grew.is_empty() {
                            bad(mon, format!("sink failed with {:?}#{}, caller saw {:?}", k, id, e));
                        }
                    }
                    (Ok(res), ans) => {
                        bad(mon, format!("caller saw {:?}, sink did {:?}", res.map_err(|e| e.kind()), ans));
                    }
                }
            }
            SinkOp::Flush => {
                let r = guarded(|| match &mut printer {
                    P::D(p) => p.flush(),
                    P::C(p) => p.flush(),
                });
                let s = sim.borrow();
                mon.steps += 1;
                match r {
                    Err(ab) => {
                        report_abnormal(mon, &ab, ctx);
                        return;
                    }
                    Ok(res) => {
                        if res.is_err() || s.flushes != before_flushes + 1 || s.delivered.len() != before_len {
                            mon.violate("C07", "O7.5", "Printer::flush does not reach the sink exactly once".into(), format!("{}: op {} flush result {:?}, sink saw {} flushes", ctx, n, res, s.flushes - before_flushes));
                        }
                    }
                }
            }
        }
    }
    let s = sim.borrow();
    if mon.keep_log {
        for l in &s.calls_log {
            mon.log.push(format!("    {}", l));
        }
        mon.log.push(format!("delivered in total: {:?}", text::show(&s.delivered)));
    }
    mon.digest = crate::prng::fnv(&s.delivered) ^ mon.digest.rotate_left(5);
    mon.add("write.short_writes", s.short_writes);
    mon.add("write.interrupts_fired", s.interrupts_fired);
}

fn check_display(case: &SinkCase, mon: &mut Mon, ctx: &str) {
    let Some(v) = case.values.first() else { return };
    let value = v.to_value();
    let t = reference(&value, true, PrintOptions::default());
    let plan = case.fmt.clone().unwrap_or(FmtPlan { budget: None, sticky: true });
    let mut sink = SimFmtSink::new(&plan);
    let r = guarded(|| write!(&mut sink, "{}", value));
    mon.steps += sink.calls;
    match r {
        Err(ab) => report_abnormal(mon, &ab, ctx),
        Ok(res) => {
            mon.digest = crate::prng::fnv(sink.accepted.as_bytes()) ^ mon.digest.rotate_left(5) ^ u64::from(res.is_ok());
            if sink.failures > 0 {
                mon.count("c07.display_failed_sink");
                let class = emission_class(&t, sink.accepted.len().min(t.len()));
                mon.tuple(format!("display-fault|{}|{}", class, if res.is_ok() { "ok" } else { "err" }));
                if res.is_ok() {
                    mon.violate("C07", "O7.6", "Display reports success although the fmt sink failed".into(), format!("{}: sink failed after {} bytes, Display returned Ok", ctx, sink.accepted.len()));
                }
                if !is_prefix(sink.accepted.as_bytes(), &t) {
                    mon.violate("C07", "O7.6", "Display delivered bytes that are not a prefix of the text".into(), format!("{}: accepted {:?}, text {:?}", ctx, sink.accepted, text::show(&t)));
                }
            } else {
                mon.count("c07.display_ok_sink");
                if res.is_err() || sink.accepted.as_bytes() != &t[..] {
                    mon.violate("C07", "O7.6", "Display output differs from to_string".into(), format!("{}: result {:?}, accepted {:?}, text {:?}", ctx, res, sink.accepted, text::show(&t)));
                }
            }
        }
    }
}

/// M17.4: printer output is well-formed UTF-8 and the same bytes everywhere.
/// The case shape under which M17.4 is recorded and replayed.
pub fn printer_side_case(popts: u32, values: Vec<V>) -> SinkCase {
    SinkCase { popts, values, entry: Entry::ToWriterCustom, plan: WritePlan::benign(), fmt: None }
}

fn is_printer_side_case(c: &SinkCase) -> bool {
    c.entry == Entry::ToWriterCustom && c.plan == WritePlan::benign() && c.fmt.is_none()
}

pub fn check_printer_side(case: &SinkCase, mon: &mut Mon, ctx: &str) {
    let popts = opts::print_options(case.popts);
    for v in &case.values {
        let value = v.to_value();
        for custom in [false, true] {
            let s = guarded(|| if custom { lexpr::to_string_custom(&value, popts) } else { lexpr::to_string(&value) });
            let b = guarded(|| if custom { lexpr::to_vec_custom(&value, popts) } else { lexpr::to_vec(&value) });
            mon.evaluations += 2;
            match (s, b) {
                (Ok(Ok(s)), Ok(Ok(b))) => {
                    mon.count("c17.printer_checks");
                    if std::str::from_utf8(std::hint::black_box(s.as_bytes())).is_err() || std::str::from_utf8(&b).is_err() {
                        mon.violate("C17", "M17.4", "printer produced ill-formed UTF-8".into(), format!("{}: bytes {:?}", ctx, b));
                    }
                    if s.as_bytes() != &b[..] {
                        mon.violate("C17", "M17.4", "to_string and to_vec disagree".into(), format!("{}: {:?} vs {:?}", ctx, s, text::show(&b)));
                    }
                }
                (Err(ab), _) | (_, Err(ab)) => report_abnormal(mon, &ab, ctx),
                (a, b) => mon.violate("C07", "O7.1", "printing into memory fails".into(), format!("{}: {:?} {:?}", ctx, a.map(|r| r.is_ok()), b.map(|r| r.is_ok()))),
            }
        }
    }
}

pub fn check_sink_case(case: &SinkCase, mon: &mut Mon) {
    beat();
    let ctx = format!(
        "popts[{}] entry={} values={:?} plan={:?}",
        opts::describe_print(case.popts),
        case.entry.name(),
        case.values.iter().map(|v| text::show(&lexpr::to_vec(&v.to_value()).unwrap_or_default())).collect::<Vec<_>>(),
        case.plan
    );
    mon.evaluations += 1;
    // M17.4 (printer-side well-formedness) belongs to the plain in-memory case;
    // running it here makes a replay of such a case re-check it
    if is_printer_side_case(case) {
        check_printer_side(case, mon, &ctx);
    }
    match &case.entry {
        Entry::Display => check_display(case, mon, &ctx),
        Entry::History { custom, ops } => check_history(case, *custom, ops, mon, &ctx),
        entry => {
            let Some(v) = case.values.first() else { return };
            let value = v.to_value();
            let popts = opts::print_options(case.popts);
            let Some(t) = reference_for(entry, &value, popts) else {
                mon.count("c07.serde_unrepresentable");
                return;
            };
            let run = run_single(entry, &value, popts, &case.plan, t.len(), mon.keep_log);
            mon.count_dyn(format!("c07.entry.{}", entry.name()));
            if mon.keep_log {
                for l in &run.calls_log {
                    mon.log.push(format!("    {}", l));
                }
            }
            mon.event(|| format!("sink {} -> ok={} delivered={:?} fired={:?}", ctx, run.result_ok, text::show(&run.delivered), run.fired));
            judge_single(case, &t, &run, mon, &ctx);
            // O7.2: the default printer and the customised printer with default options
            // produce the same text, and each delivers it (or a prefix of it, failing)
            // under this plan. What the two deliver *after a sink fault* need not be the
            // same bytes - how far each got depends on how it batches its writes - so
            // under a fired fault each is judged against the text on its own.
            if entry.default_formatter() && run.abnormal.is_none() {
                let twin = match entry {
                    Entry::ToWriter => Entry::ToWriterCustom,
                    _ => Entry::PrinterWithOptions,
                };
                let t2 = reference(&value, false, PrintOptions::default());
                mon.count("c07.twin_runs");
                if t2 != t {
                    mon.violate(
                        "C07",
                        "O7.2",
                        "default printer and customised printer with default options differ".into(),
                        format!("{}: default text {:?}, customised text {:?}", ctx, text::show(&t), text::show(&t2)),
                    );
                }
                let run2 = run_single(&twin, &value, PrintOptions::default(), &case.plan, t.len(), false);
                mon.evaluations += 1;
                let twin_case = SinkCase { entry: twin, popts: opts::PRINT_DEFAULT, ..case.clone() };
                judge_single(&twin_case, &t2, &run2, mon, &ctx);
                if run.fired.is_empty() && run2.fired.is_empty() && run.interrupts_fired == 0 && run2.interrupts_fired == 0 && (run2.delivered != run.delivered || run2.result_ok != run.result_ok) {
                    mon.violate(
                        "C07",
                        "O7.2",
                        "default printer and customised printer with default options differ".into(),
                        format!("{}: default delivered {:?} (ok={}), customised {:?} (ok={})", ctx, text::show(&run.delivered), run.result_ok, text::show(&run2.delivered), run2.result_ok),
                    );
                }
            }
        }
    }
}

pub fn candidates(c: &SinkCase) -> Vec<SinkCase> {
    let mut out = Vec::new();
    // plan first
    if c.plan.vectored {
        out.push(SinkCase { plan: WritePlan { vectored: false, ..c.plan.clone() }, ..c.clone() });
    }
    if c.plan.adapter != WriteAdapter::Direct {
        out.push(SinkCase { plan: WritePlan { adapter: WriteAdapter::Direct, ..c.plan.clone() }, ..c.clone() });
    }
    if c.plan.interrupts != Interrupts::None {
        out.push(SinkCase { plan: WritePlan { interrupts: Interrupts::None, ..c.plan.clone() }, ..c.clone() });
    }
    for i in 0..c.plan.faults.len() {
        let mut p = c.plan.clone();
        p.faults.remove(i);
        out.push(SinkCase { plan: p, ..c.clone() });
    }
    if c.plan.accepts.len() > 1 {
        out.push(SinkCase { plan: WritePlan { accepts: vec![c.plan.accepts[0]], ..c.plan.clone() }, ..c.clone() });
    }
    if !c.plan.accepts.is_empty() && c.plan.accepts != vec![1] {
        out.push(SinkCase { plan: WritePlan { accepts: vec![1], ..c.plan.clone() }, ..c.clone() });
    }
    if c.entry.is_serde() {
        // the plain entry point behind the front end
        let plain = if c.entry == Entry::SerdeToWriter { Entry::ToWriter } else { Entry::ToWriterCustom };
        out.push(SinkCase { entry: plain, ..c.clone() });
    }
    if let Entry::History { custom, ops } = &c.entry {
        for i in 0..ops.len() {
            let mut o = ops.clone();
            o.remove(i);
            out.push(SinkCase { entry: Entry::History { custom: *custom, ops: o }, ..c.clone() });
        }
        if *custom {
            out.push(SinkCase { entry: Entry::History { custom: false, ops: ops.clone() }, ..c.clone() });
        }
    }
    // values: shrink each; fault offsets are re-aimed at the same relative spot
    for (i, v) in c.values.iter().enumerate() {
        for s in v.shrinks() {
            let mut d = c.clone();
            d.values[i] = s;
            out.push(d.clone());
            // also try with fault offsets pulled down to the new text length
            if let Some(f) = d.plan.faults.first().cloned() {
                let t = reference_for(&d.entry, &d.values[0].to_value(), opts::print_options(d.popts)).unwrap_or_default();
                for at in [f.at.min(t.len()), t.len() / 2, 0, 1, t.len().saturating_sub(1)] {
                    if at != f.at {
                        let mut e = d.clone();
                        e.plan.faults[0].at = at;
                        out.push(e);
                    }
                }
            }
            if let Some(fp) = &d.fmt {
                if let Some(b) = fp.budget {
                    for nb in [b / 2, 0, 1, b.saturating_sub(1)] {
                        if nb != b {
                            let mut e = d.clone();
                            e.fmt = Some(FmtPlan { budget: Some(nb), sticky: fp.sticky });
                            out.push(e);
                        }
                    }
                }
            }
        }
    }
    if c.popts != opts::PRINT_DEFAULT {
        out.push(SinkCase { popts: opts::PRINT_DEFAULT, ..c.clone() });
        let f = opts::print_fields(c.popts);
        let mut push = |g: opts::PrintFields| {
            let j = opts::print_index(g);
            if j != c.popts {
                out.push(SinkCase { popts: j, ..c.clone() });
            }
        };
        push(opts::PrintFields { kw: 0, ..f });
        push(opts::PrintFields { nil: 0, ..f });
        push(opts::PrintFields { boolean: 0, ..f });
        push(opts::PrintFields { vector: 0, ..f });
        push(opts::PrintFields { bytes: 0, ..f });
        push(opts::PrintFields { string: 0, ..f });
        push(opts::PrintFields { chr: 0, ..f });
    }
    for f in 0..c.plan.faults.len() {
        let at = c.plan.faults[f].at;
        for na in [at / 2, at.saturating_sub(1), 0] {
            if na != at {
                let mut d = c.clone();
                d.plan.faults[f].at = na;
                out.push(d);
            }
        }
        if c.plan.faults[f].sticky && c.plan.faults[f].kind != WriteFaultKind::Zero {
            let mut d = c.clone();
            d.plan.faults[f].sticky = false;
            out.push(d);
        }
    }
    out
}

// ---------------------------------------------------------------------------
// scenario generation and the fault sweep

fn draw_write_base(rng: &mut Rng) -> WritePlan {
    let adapter = match rng.below(10) {
        0..=5 => WriteAdapter::Direct,
        6..=7 => WriteAdapter::DynRef,
        _ => WriteAdapter::BufWriter { cap: rng.urange(1, 24) },
    };
    WritePlan { vectored: rng.coin(), adapter, accepts: vec![], interrupts: Interrupts::None, faults: vec![] }
}

pub fn c07_run(seed: u64, i: u64, mon: &mut Mon, found: &mut Vec<Found>) {
    let mut rng = Rng::new(run_seed(seed, TAG_C07, i));
    let popts = opts::draw_print(&mut rng);
    let mask = ValMask::draw(&mut rng, opts::print_fields(popts).chr == 1);
    let depth = if rng.chance(1, 10) { 4 } else { rng.below(4) as u32 };
    let entry_pick = rng.below(22);
    let run_case = |case: SinkCase, mon: &mut Mon, found: &mut Vec<Found>| {
        mon.before_case(|| serde_json::to_string(&AnyCase::Sink(case.clone())).unwrap_or_default());
        let before = mon.violations.len();
        check_sink_case(&case, mon);
        for v in mon.violations[before..].to_vec() {
            found.push(Found { violation: v, case: AnyCase::Sink(case.clone()) });
        }
    };
    if entry_pick < 3 {
        // history on one printer
        let n = 1 + rng.small(3);
        let values: Vec<V> = (0..n).map(|_| val::gen_value(&mut rng, &mask, depth.min(2))).collect();
        let custom = rng.coin();
        let n_ops = 1 + rng.small(8);
        let ops: Vec<SinkOp> = (0..n_ops)
            .map(|_| match rng.below(10) {
                0..=5 => SinkOp::Print(rng.usize_below(values.len())),
                6..=8 => {
                    let m = TriviaMask_blank(&mut rng);
                    SinkOp::Raw(m)
                }
                _ => SinkOp::Flush,
            })
            .collect();
        let base = SinkCase { popts, values, entry: Entry::History { custom, ops: ops.clone() }, plan: WritePlan::benign(), fmt: None };
        if i < 2 {
            mon.samples_push(|| serde_json::json!({"run": i, "engine": "E-SINK", "case": base}));
        }
        run_case(printer_side_case(popts, base.values.clone()), mon, found);
        run_case(base.clone(), mon, found);
        // total expected output length decides the fault offsets
        let total: usize = {
            let po = opts::print_options(popts);
            ops.iter()
                .map(|o| match o {
                    SinkOp::Print(ix) => reference(&base.values[*ix].to_value(), !custom, po).len(),
                    SinkOp::Raw(b) => b.len(),
                    SinkOp::Flush => 0,
                })
                .sum()
        };
        for round in 0..6u64 {
            let mut plan = WritePlan {
                vectored: rng.coin(),
                adapter: if rng.coin() { WriteAdapter::Direct } else { WriteAdapter::DynRef },
                accepts: (0..rng.urange(1, 4)).map(|_| rng.urange(1, 7) as u16).collect(),
                interrupts: if rng.chance(1, 3) { Interrupts::At(vec![rng.below(8) as u32, rng.below(20) as u32]) } else { Interrupts::None },
                faults: vec![],
            };
            if round > 0 {
                let at = rng.usize_below(total + 1);
                let kind = if rng.chance(1, 3) { WriteFaultKind::Zero } else { WriteFaultKind::Hard(*rng.pick(&KINDS)) };
                plan.faults.push(WriteFault { at, kind, sticky: rng.coin(), id: 900 + round, payload: payload_for(rng.usize_below(8)) });
            }
            run_case(SinkCase { plan, ..base.clone() }, mon, found);
        }
        mon.count("scenarios");
        return;
    }
    let mut value = val::gen_value(&mut rng, &mask, depth);
    if rng.chance(1, 12) {
        // a big value: kilobytes of output with multi-byte text at every alignment,
        // so that whatever buffer sits between printer and sink fills up mid-token
        let n = rng.urange(12, 60);
        let big_mask = ValMask { long_tokens: true, ..mask };
        let pad = rng.urange(0, 7);
        let items: Vec<V> = (0..n)
            .map(|k| match rng.below(4) {
                0 => V::Str(format!("{}{}", "x".repeat((pad + k) % 7), val::gen_string(&mut rng, &big_mask))),
                1 => V::Sym(val::gen_name(&mut rng, &big_mask)),
                2 => V::Str("é名λ😀".repeat(rng.urange(5, 40))),
                _ => val::gen_atom(&mut rng, &mask),
            })
            .collect();
        value = if rng.coin() { V::List(items, None) } else { V::Vector(items) };
        mon.count("c07.big_value_scenarios");
    }
    let entry = match entry_pick {
        3..=8 => Entry::ToWriter,
        9..=13 => Entry::ToWriterCustom,
        14..=15 => Entry::PrinterNew,
        16..=17 => Entry::PrinterWithOptions,
        18..=19 => Entry::Display,
        20 => Entry::SerdeToWriter,
        _ => Entry::SerdeToWriterCustom,
    };
    let base_plan = draw_write_base(&mut rng);
    let base = SinkCase { popts, values: vec![value], entry: entry.clone(), plan: base_plan.clone(), fmt: None };
    if i < 2 {
        mon.samples_push(|| serde_json::json!({"run": i, "engine": "E-SINK", "case": base, "sweep": "accept<=k for k=1..24, hard error and zero-accept at every output offset, Interrupted schedules"}));
    }
    run_case(printer_side_case(popts, base.values.clone()), mon, found);
    let value0 = base.values[0].to_value();
    let Some(t) = reference_for(&entry, &value0, opts::print_options(popts)) else {
        mon.count("c07.serde_unrepresentable");
        mon.count("scenarios");
        return;
    };
    let len = t.len();
    let offsets: Vec<usize> = if len <= 2048 { (0..=len).collect() } else { (0..64).map(|_| rng.usize_below(len + 1)).collect() };
    if entry == Entry::Display {
        run_case(SinkCase { fmt: Some(FmtPlan { budget: None, sticky: true }), ..base.clone() }, mon, found);
        for &j in &offsets {
            if j < len {
                run_case(SinkCase { fmt: Some(FmtPlan { budget: Some(j), sticky: j % 2 == 0 }), ..base.clone() }, mon, found);
            }
        }
        mon.count("scenarios");
        return;
    }
    // (a) short writes
    run_case(base.clone(), mon, found);
    for k in 1..=len.min(24) {
        run_case(SinkCase { plan: WritePlan { accepts: vec![k as u16], ..base_plan.clone() }, ..base.clone() }, mon, found);
    }
    let random_accepts: Vec<u16> = (0..rng.urange(2, 6)).map(|_| rng.urange(1, 9) as u16).collect();
    run_case(SinkCase { plan: WritePlan { accepts: random_accepts.clone(), ..base_plan.clone() }, ..base.clone() }, mon, found);
    for adapter in [WriteAdapter::DynRef, WriteAdapter::BufWriter { cap: rng.urange(1, 16) }] {
        run_case(SinkCase { plan: WritePlan { adapter, accepts: random_accepts.clone(), ..base_plan.clone() }, ..base.clone() }, mon, found);
    }
    // (d) interrupts
    run_case(SinkCase { plan: WritePlan { interrupts: Interrupts::Alternate, accepts: random_accepts.clone(), ..base_plan.clone() }, ..base.clone() }, mon, found);
    let ints: Vec<u32> = (0..rng.urange(1, 4)).map(|_| rng.below(len as u64 + 2) as u32).collect();
    run_case(SinkCase { plan: WritePlan { interrupts: Interrupts::At(ints), accepts: random_accepts.clone(), ..base_plan.clone() }, ..base.clone() }, mon, found);
    // (b) hard error at every offset, (c) zero-accept from every offset on
    let accepts_for_faults = if rng.coin() { vec![] } else { random_accepts };
    for &j in &offsets {
        let hard = WriteFault { at: j, kind: WriteFaultKind::Hard(KINDS[j % KINDS.len()]), sticky: j % 2 == 1, id: 1000 + j as u64, payload: payload_for(j / 7) };
        run_case(SinkCase { plan: WritePlan { faults: vec![hard], accepts: accepts_for_faults.clone(), ..base_plan.clone() }, ..base.clone() }, mon, found);
        if j < len {
            let zero = WriteFault { at: j, kind: WriteFaultKind::Zero, sticky: true, id: 5000 + j as u64, payload: Payload::Custom };
            run_case(SinkCase { plan: WritePlan { faults: vec![zero], accepts: accepts_for_faults.clone(), ..base_plan.clone() }, ..base.clone() }, mon, found);
        }
    }
    mon.count("scenarios");
}

#[allow(non_snake_case)]
fn TriviaMask_blank(rng: &mut Rng) -> Vec<u8> {
    let m = text::TriviaMask::draw(rng, false);
    text::gen_trivia(rng, &m, true)
}
