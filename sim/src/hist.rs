//! E-HIST: one long-lived parser driven by a seeded call history over an
//! in-memory or scripted-stream source (C12, C03, and the C17 workload).

use crate::engine::{self, AnyCase, Found, Tier, TAG_C03, TAG_C12, TAG_C17};
use crate::opts;
use crate::outcome::*;
use crate::prng::{run_seed, Rng};
use crate::shrink;
use crate::text::{self, hex, PathShape, Tok, TriviaMask};
use crate::val::{self, ValMask, V};
use crate::world::*;
use lexpr::parse::Options;
use lexpr::{Parser, Value};
use serde::{Deserialize, Serialize};
use std::io;
use std::rc::Rc;

#[derive(Debug, Clone, Copy, PartialEq, Eq, Serialize, Deserialize, PartialOrd, Ord)]
pub enum Op {
    NextValue,
    NextDatum,
    ExpectValue,
    ExpectDatum,
    ExpectEnd,
    ValueIterNext,
    DatumIterNext,
    IteratorNext,
}

pub const VALUE_OPS: [Op; 5] = [Op::NextValue, Op::NextDatum, Op::ValueIterNext, Op::DatumIterNext, Op::IteratorNext];
pub const ALL_OPS: [Op; 8] = [
    Op::NextValue,
    Op::NextDatum,
    Op::ExpectValue,
    Op::ExpectDatum,
    Op::ExpectEnd,
    Op::ValueIterNext,
    Op::DatumIterNext,
    Op::IteratorNext,
];

impl Op {
    pub fn name(self) -> &'static str {
        match self {
            Op::NextValue => "next_value",
            Op::NextDatum => "next_datum",
            Op::ExpectValue => "expect_value",
            Op::ExpectDatum => "expect_datum",
            Op::ExpectEnd => "expect_end",
            Op::ValueIterNext => "value_iter.next",
            Op::DatumIterNext => "datum_iter.next",
            Op::IteratorNext => "Iterator::next",
        }
    }
    fn reports_end(self) -> bool {
        matches!(self, Op::NextValue | Op::NextDatum | Op::ValueIterNext | Op::DatumIterNext | Op::IteratorNext)
    }
}

#[derive(Debug, Clone, PartialEq, Serialize, Deserialize)]
pub enum Source {
    Str,
    Slice,
    Stream(ReadPlan),
}

impl Source {
    fn name(&self) -> &'static str {
        match self {
            Source::Str => "str",
            Source::Slice => "slice",
            Source::Stream(_) => "stream",
        }
    }
}

#[derive(Debug, Clone, PartialEq, Serialize, Deserialize)]
pub enum StormBlob {
    /// `n` openers and nothing else.
    Openers { opener: String, n: usize },
    /// `d` openers, an atom, `d` closers.
    Balanced { opener: String, d: usize },
    /// `d` openers, an atom, `d - 1` closers and a newline.
    Short { opener: String, d: usize },
    /// Arbitrary bytes.
    Raw(#[serde(with = "hex")] Vec<u8>),
    /// A small well-formed datum (a "success storm" exercises the accounting
    /// on the paths that do not fail).
    Good(String),
}

#[derive(Debug, Clone, PartialEq, Serialize, Deserialize)]
pub enum Workload {
    /// Printed values laid out with trivia; the FIFO model applies.
    Queue { popts: u32, values: Vec<V>, gaps: Vec<GapBytes> },
    /// The same tokens under two independent trivia draws.
    Trivia { popts: u32, values: Vec<V>, gaps_a: Vec<GapBytes>, gaps_b: Vec<GapBytes> },
    /// Arbitrary text.
    Any {
        #[serde(with = "hex")]
        input: Vec<u8>,
    },
    /// Pathological nesting; `count` levels.
    Deep { shape: PathShape },
    /// Error storm, sentinel, probe datum nested `probe_depth` levels.
    Storm { blobs: Vec<StormBlob>, probe_depth: usize },
    /// Width instead of depth: `opener`, `count` copies of `element`, `tail`.
    /// Nothing here nests more than a few levels, so nothing may run out of stack.
    Wide { opener: String, element: String, count: usize, tail: String },
}

pub fn wide_text(opener: &str, element: &str, count: usize, tail: &str) -> Vec<u8> {
    let mut out = Vec::with_capacity(opener.len() + element.len() * count + tail.len());
    out.extend_from_slice(opener.as_bytes());
    for _ in 0..count {
        out.extend_from_slice(element.as_bytes());
    }
    out.extend_from_slice(tail.as_bytes());
    out
}

#[derive(Debug, Clone, PartialEq, Serialize, Deserialize)]
pub struct GapBytes(#[serde(with = "hex")] pub Vec<u8>);

#[derive(Debug, Clone, PartialEq, Serialize, Deserialize)]
pub struct HistCase {
    pub opts: u32,
    pub source: Source,
    pub workload: Workload,
    pub ops: Vec<Op>,
    /// After `ops`, repeat this value-returning op until end of input.
    pub then_drain: Option<Op>,
}

pub const SENTINEL: &str = "sentinel-7f3a";
pub const SENTINEL2: &str = "sentinel-91c4";
/// One level more than the documented limit.
pub const OVER_DEEP: usize = 129;

fn gaps_vec(g: &[GapBytes]) -> Vec<Vec<u8>> {
    g.iter().map(|x| x.0.clone()).collect()
}

fn storm_text(blobs: &[StormBlob], probe_depth: usize) -> (Vec<u8>, Vec<u8>) {
    let mut out = Vec::new();
    for b in blobs {
        match b {
            StormBlob::Openers { opener, n } => {
                for _ in 0..*n {
                    out.extend_from_slice(opener.as_bytes());
                }
            }
            StormBlob::Balanced { opener, d } => {
                for _ in 0..*d {
                    out.extend_from_slice(opener.as_bytes());
                }
                out.push(b'x');
                for _ in 0..*d {
                    out.extend_from_slice(text::closer_for(opener).as_bytes());
                }
            }
            StormBlob::Short { opener, d } => {
                for _ in 0..*d {
                    out.extend_from_slice(opener.as_bytes());
                }
                out.push(b'x');
                for _ in 0..d.saturating_sub(1) {
                    out.extend_from_slice(text::closer_for(opener).as_bytes());
                }
            }
            StormBlob::Raw(b) => out.extend_from_slice(b),
            StormBlob::Good(t) => out.extend_from_slice(t.as_bytes()),
        }
        out.push(b'\n');
    }
    out.push(b'\n');
    out.extend_from_slice(SENTINEL.as_bytes());
    out.push(b'\n');
    let mut probe = Vec::new();
    for _ in 0..probe_depth {
        probe.push(b'(');
    }
    probe.extend_from_slice(b"p");
    for _ in 0..probe_depth {
        probe.push(b')');
    }
    out.extend_from_slice(&probe);
    out.push(b'\n');
    // second sentinel, then a datum nested beyond the documented limit
    out.extend_from_slice(SENTINEL2.as_bytes());
    out.push(b'\n');
    for _ in 0..OVER_DEEP {
        out.push(b'(');
    }
    out.push(b'q');
    for _ in 0..OVER_DEEP {
        out.push(b')');
    }
    out.push(b'\n');
    (out, probe)
}

impl HistCase {
    pub fn input(&self) -> Vec<u8> {
        match &self.workload {
            Workload::Queue { popts, values, gaps } => text::assemble(&text::tokens_of(values, *popts), &gaps_vec(gaps)),
            Workload::Trivia { popts, values, gaps_a, .. } => text::assemble(&text::tokens_of(values, *popts), &gaps_vec(gaps_a)),
            Workload::Any { input } => input.clone(),
            Workload::Deep { shape } => text::build_path(shape),
            Workload::Storm { blobs, probe_depth } => storm_text(blobs, *probe_depth).0,
            Workload::Wide { opener, element, count, tail } => wide_text(opener, element, *count, tail),
        }
    }
}

// ---------------------------------------------------------------------------
// execution

pub struct Step {
    pub op: Op,
    pub res: PRes,
    /// Number of faults that had fired before / after this op.
    pub fired_before: usize,
    pub fired_after: usize,
}

pub struct HistRun {
    pub steps: Vec<Step>,
    pub fired: Vec<Fired>,
    pub abnormal: bool,
    pub bound_exceeded: bool,
    pub reached_end: bool,
}

struct Driver<'m> {
    opts: Options,
    input: &'m [u8],
    ops: &'m [Op],
    then_drain: Option<Op>,
    bound: usize,
    shared: Option<Rc<ReadShared>>,
    sticky_hard: bool,
    preset_default: bool,
    opaque: bool,
    mon: &'m mut Mon,
    what: &'static str,
}

impl<'m> Driver<'m> {
    fn drive<'de, R: lexpr::parse::Read<'de>>(self, mut parser: Parser<R>) -> HistRun {
        let mut steps: Vec<Step> = Vec::new();
        let lines = LineIndex::new();
        let mut abnormal = false;
        let mut bound_exceeded = false;
        let mut reached_end = false;
        let mon = self.mon;
        let mut n = 0usize;
        let mut drained = 0usize;
        let mut opaque_errors = 0usize;
        loop {
            let (op, from_drain) = if n < self.ops.len() {
                (self.ops[n], false)
            } else if let Some(d) = self.then_drain {
                (d, true)
            } else {
                break;
            };
            n += 1;
            if let Some(sh) = &self.shared {
                sh.begin_op();
            }
            beat();
            let fired_before = self.shared.as_ref().map(|s| s.n_fired()).unwrap_or(0);
            // every other step goes through the deprecated alias of the method
            // (`parse`, `parse_value`, `end`), which must behave identically
            let alias = n % 2 == 0;
            // In opaque mode (very wide data) the result is dropped at once, inside
            // the guard, and stands in as `()`: lexpr's own Debug, PartialEq and Clone
            // recurse along a list, which is not this property's business, so the
            // harness must not format, compare or copy such a value. Dropping it is
            // the one thing no caller can avoid.
            let opaque = self.opaque;
            let pv = move |o: Option<Value>| -> Option<Value> {
                if opaque {
                    o.map(|v| {
                        drop(v);
                        Value::Null
                    })
                } else {
                    o
                }
            };
            let pd = move |o: Option<lexpr::Datum>| -> Option<Value> {
                o.map(|d| {
                    if opaque {
                        drop(d);
                        Value::Null
                    } else {
                        Value::from(d)
                    }
                })
            };
            #[allow(deprecated)]
            let r: Result<lexpr::parse::Result<Option<Value>>, Abnormal> = match op {
                Op::NextValue if alias => guarded(|| parser.parse().map(pv)),
                Op::ExpectValue if alias => guarded(|| parser.parse_value().map(|v| pv(Some(v)))),
                Op::ExpectEnd if alias => guarded(|| parser.end().map(|()| None)),
                Op::NextValue => guarded(|| parser.next_value().map(pv)),
                Op::NextDatum => guarded(|| parser.next_datum().map(pd)),
                Op::ExpectValue => guarded(|| parser.expect_value().map(|v| pv(Some(v)))),
                Op::ExpectDatum => guarded(|| parser.expect_datum().map(|d| pd(Some(d)))),
                Op::ExpectEnd => guarded(|| parser.expect_end().map(|()| None)),
                Op::ValueIterNext => guarded(|| parser.value_iter().next().transpose().map(pv)),
                Op::DatumIterNext => guarded(|| parser.datum_iter().next().transpose().map(pd)),
                Op::IteratorNext => guarded(|| Iterator::next(&mut parser).transpose().map(pv)),
            };
            let (seen, fired) = match &self.shared {
                Some(sh) => (sh.delivered.get().min(self.input.len()), sh.fired.borrow().clone()),
                None => (self.input.len(), vec![]),
            };
            let res = match r {
                Ok(Ok(v)) => match &v {
                    Some(val) if !check_utf8_value(val, mon, self.what) => {
                        Err(PErr { cat: Cat::Syntax, msg: "<value with an ill-formed str, dropped>".into(), loc: None, io_id: None })
                    }
                    _ => Ok(v),
                },
                Ok(Err(e)) => Err(digest_error(e, &Seen { input: self.input, len: seen, idx: Some(&lines) }, &fired, mon, self.what)),
                Err(ab) => {
                    report_abnormal(mon, &ab, self.what);
                    abnormal = true;
                    Err(PErr { cat: Cat::Syntax, msg: format!("<abnormal: {:?}>", ab), loc: None, io_id: None })
                }
            };
            mon.steps += 1;
            mon.fold(&res);
            if mon.keep_log {
                if let Some(sh) = &self.shared {
                    for l in sh.calls_log.borrow_mut().drain(..) {
                        mon.log.push(format!("    {}", l));
                    }
                }
                let fired_now = fired.len() > fired_before;
                mon.log.push(format!("op {} {} -> {}{}", steps.len(), op.name(), show_res(&res), if fired_now { format!("  [fault fired: {:?}]", &fired[fired_before..]) } else { String::new() }));
            }
            let is_end = op.reports_end() && matches!(res, Ok(None));
            let sticky_io = self.sticky_hard && matches!(&res, Err(e) if e.cat == Cat::Io);
            steps.push(Step { op, res, fired_before, fired_after: fired.len() });
            if abnormal {
                break;
            }
            // Very wide data on the in-memory readers: every error costs a rescan of
            // the input so far (lexpr computes positions on demand), so a tree in
            // which every element fails would keep one run busy for minutes. The
            // width is what this workload is about, not the number of errors.
            if self.opaque && matches!(steps.last().map(|s| &s.res), Some(Err(_))) {
                opaque_errors += 1;
                if opaque_errors > 64 {
                    break;
                }
            }
            if from_drain {
                drained += 1;
                if is_end {
                    reached_end = true;
                    break;
                }
                if sticky_io {
                    break;
                }
                if drained > self.bound {
                    bound_exceeded = true;
                    break;
                }
            }
        }
        let fired = self.shared.as_ref().map(|s| s.fired.borrow().clone()).unwrap_or_default();
        HistRun { steps, fired, abnormal, bound_exceeded, reached_end }
    }
}

struct StreamDrive<'m>(Driver<'m>);

impl<'m> WithReader for StreamDrive<'m> {
    type Out = HistRun;
    fn call<R: io::Read>(self, reader: R) -> HistRun {
        let opts = self.0.opts;
        // the preset constructors for the preset option set; `Parser::new` and
        // `Parser::with_options` over the reader type the others wrap
        if self.0.preset_default {
            if self.0.input.len() % 2 == 0 {
                self.0.drive(Parser::from_reader(reader))
            } else {
                self.0.drive(Parser::new(lexpr::parse::IoRead::new(reader)))
            }
        } else if self.0.input.len() % 2 == 0 {
            self.0.drive(Parser::from_reader_custom(reader, opts))
        } else {
            self.0.drive(Parser::with_options(lexpr::parse::IoRead::new(reader), opts))
        }
    }
}

pub fn exec(opts_ix: u32, source: &Source, input: &[u8], ops: &[Op], then_drain: Option<Op>, mon: &mut Mon) -> HistRun {
    exec_with(opts_ix, source, input, ops, then_drain, false, mon)
}

/// `opaque`: drop every returned value at once instead of keeping it.
pub fn exec_with(opts_ix: u32, source: &Source, input: &[u8], ops: &[Op], then_drain: Option<Op>, opaque: bool, mon: &mut Mon) -> HistRun {
    let opts = opts::parse_options(opts_ix);
    mon.evaluations += 1;
    let planned = match source {
        Source::Stream(p) => p.faults.len(),
        _ => 0,
    };
    let bound = crate::stream::item_bound(input.len(), planned);
    match source {
        Source::Str if std::str::from_utf8(input).is_ok() => {
            let s = std::str::from_utf8(input).unwrap();
            Driver { opts, input, ops, then_drain, bound, shared: None, sticky_hard: false, preset_default: opts_ix == opts::PARSE_DEFAULT, opaque, mon, what: "str source" }.drive(if opts_ix == opts::PARSE_DEFAULT { Parser::from_str(s) } else { Parser::from_str_custom(s, opts) })
        }
        Source::Str | Source::Slice => {
            Driver { opts, input, ops, then_drain, bound, shared: None, sticky_hard: false, preset_default: opts_ix == opts::PARSE_DEFAULT, opaque, mon, what: "slice source" }.drive(if opts_ix == opts::PARSE_DEFAULT { Parser::from_slice(input) } else { Parser::from_slice_custom(input, opts) })
        }
        Source::Stream(plan) => {
            let mut sim = SimReader::new(input, plan);
            let shared = sim.shared.clone();
            shared.trace.set(mon.keep_log);
            let sticky_hard = plan.faults.iter().any(|f| f.sticky && matches!(f.kind, ReadFaultKind::Hard(_)));
            let d = Driver { opts, input, ops, then_drain, bound, shared: Some(shared.clone()), sticky_hard, preset_default: opts_ix == opts::PARSE_DEFAULT, opaque, mon, what: "stream source" };
            let run = with_adapter(input, plan, &mut sim, StreamDrive(d));
            mon.steps += shared.calls.get();
            mon.add("read.interrupts_fired", shared.interrupts_fired.get());
            mon.add("read.short_reads", shared.short_reads.get());
            run
        }
    }
}

// ---------------------------------------------------------------------------
// oracles

fn standalone(v: &V, popts: u32, opts_ix: u32) -> Option<Value> {
    // to_vec, not to_string: the harness must not run into the hooked unchecked
    // conversion itself; an ill-formed print is C17's to report, not ours to trip on
    let bytes = lexpr::to_vec_custom(&v.to_value(), opts::print_options(popts)).ok()?;
    let text = String::from_utf8(bytes).ok()?;
    match guarded(|| lexpr::from_str_custom(&text, opts::parse_options(opts_ix))) {
        Ok(Ok(v)) => Some(v),
        _ => None,
    }
}

fn same_value(a: &Value, b: &Value) -> bool {
    a == b && format!("{:?}", a) == format!("{:?}", b)
}

fn res_sig(r: &PRes) -> String {
    match r {
        Ok(Some(_)) => "a value".to_string(),
        Ok(None) => "end".to_string(),
        Err(e) => format!("{}({})", e.cat.name(), e.msg),
    }
}

fn ctx_of(case: &HistCase, input: &[u8]) -> String {
    format!("opts[{}] source={} input={:?}", opts::describe_parse(case.opts), case.source.name(), text::show(input))
}

fn termination_checks(case: &HistCase, input: &[u8], run: &HistRun, mon: &mut Mon) {
    let ctx = ctx_of(case, input);
    if run.bound_exceeded {
        let last = run.steps.last().map(|s| res_sig(&s.res)).unwrap_or_default();
        mon.violate(
            "C12",
            "O12.3",
            format!("iteration does not terminate (keeps yielding {})", last),
            format!("{}: draining with {} yielded more than {} items without reaching the end", ctx, case.then_drain.map(Op::name).unwrap_or("?"), crate::stream::item_bound(input.len(), 0)),
        );
    }
    let successes = run.steps.iter().filter(|s| s.op != Op::ExpectEnd && matches!(s.res, Ok(Some(_)))).count();
    if successes > input.len() {
        mon.violate("C12", "O12.4", "more successful items than input bytes".into(), format!("{}: {} successful items from {} bytes", ctx, successes, input.len()));
    }
}

fn check_queue(case: &HistCase, popts: u32, values: &[V], mon: &mut Mon) {
    let input = case.input();
    // what each value denotes when parsed alone
    let mut model: Vec<Value> = Vec::with_capacity(values.len());
    for v in values {
        match standalone(v, popts, case.opts) {
            Some(w) => model.push(w),
            None => {
                mon.count("c12.queue_inconclusive_value");
                return;
            }
        }
    }
    let run = exec(case.opts, &case.source, &input, &case.ops, case.then_drain, mon);
    if run.abnormal {
        return;
    }
    let ctx = ctx_of(case, &input);
    mon.count("c12.queue_runs");
    let mut head = 0usize;
    let mut abandoned = false;
    for (n, st) in run.steps.iter().enumerate() {
        if abandoned {
            break;
        }
        let fired_now = st.fired_after > st.fired_before;
        let expect_some = head < model.len();
        // what the model says
        let model_says: String;
        let conforms = match st.op {
            Op::ExpectEnd => {
                model_says = if expect_some { "an error (input remains)".into() } else { "Ok".into() };
                if expect_some {
                    st.res.is_err()
                } else {
                    matches!(st.res, Ok(None))
                }
            }
            Op::ExpectValue | Op::ExpectDatum => {
                model_says = if expect_some { "the next value".into() } else { "an error (no input left)".into() };
                if expect_some {
                    matches!(&st.res, Ok(Some(v)) if same_value(v, &model[head]))
                } else {
                    st.res.is_err()
                }
            }
            _ => {
                model_says = if expect_some { "the next value".into() } else { "end of input".into() };
                if expect_some {
                    matches!(&st.res, Ok(Some(v)) if same_value(v, &model[head]))
                } else {
                    matches!(st.res, Ok(None))
                }
            }
        };
        if fired_now {
            let f = &run.fired[st.fired_before];
            mon.count("c12.fault_in_history");
            mon.tuple(format!("queue-fault|{}|{}|{}", st.op.name(), f.hard.map(|k| k.name()).unwrap_or("Eof"), class_of(&st.res)));
            match f.hard {
                Some(_) => {
                    let carries = matches!(&st.res, Err(e) if e.cat == Cat::Io && e.io_id == Some(f.id));
                    if !(carries || conforms) {
                        mon.violate(
                            "C12",
                            "O12.1",
                            format!("after a read error a call returned {} instead of the error or {}", res_sig(&st.res), model_says),
                            format!("{}: op {} {} with fault {:?}: got {}", ctx, n, st.op.name(), f, show_res(&st.res)),
                        );
                    }
                }
                None => {}
            }
            // the in-flight datum may be lost: stop comparing
            abandoned = true;
            continue;
        }
        if !conforms {
            let got = match (&st.res, expect_some) {
                (Ok(Some(_)), true) => "a different value".to_string(),
                (r, _) => res_sig(r),
            };
            mon.violate(
                "C12",
                "O12.1",
                format!("a call returned {} where the sequence has {}", got, model_says),
                format!(
                    "{}: op {} {}: got {}, expected {} (queue position {} of {}: {})",
                    ctx,
                    n,
                    st.op.name(),
                    show_res(&st.res),
                    model_says,
                    head,
                    model.len(),
                    model.get(head).map(|v| format!("{:?}", v)).unwrap_or_else(|| "<empty>".into())
                ),
            );
            return;
        }
        if expect_some && st.op != Op::ExpectEnd {
            head += 1;
        }
    }
    if !abandoned {
        mon.tuple(format!("queue|{}|ops{}|values{}", case.source.name(), case.ops.len().min(9), model.len().min(9)));
        if case.then_drain.is_some() && !run.reached_end && !run.bound_exceeded {
            mon.violate("C12", "O12.1", "drain stopped before the end of input".into(), format!("{}: drain did not reach the end", ctx));
        }
    }
    termination_checks(case, &input, &run, mon);
}

fn check_trivia(case: &HistCase, popts: u32, values: &[V], gaps_a: &[GapBytes], gaps_b: &[GapBytes], mon: &mut Mon) {
    let toks = text::tokens_of(values, popts);
    let a = text::assemble(&toks, &gaps_vec(gaps_a));
    let b = text::assemble(&toks, &gaps_vec(gaps_b));
    let ra = exec(case.opts, &case.source, &a, &case.ops, case.then_drain, mon);
    let rb = exec(case.opts, &case.source, &b, &case.ops, case.then_drain, mon);
    if ra.abnormal || rb.abnormal {
        return;
    }
    mon.count("c12.trivia_runs");
    // compare up to the first fired fault in either run (benign sources: the whole run)
    let n = ra.steps.len().max(rb.steps.len());
    for i in 0..n {
        match (ra.steps.get(i), rb.steps.get(i)) {
            (Some(x), Some(y)) => {
                if x.fired_after > 0 || y.fired_after > 0 {
                    break;
                }
                if !equiv(&x.res, &y.res) {
                    mon.violate(
                        "C12",
                        "O12.2",
                        format!("changing trivia changes a result ({} vs {})", res_sig(&x.res), res_sig(&y.res)),
                        format!(
                            "opts[{}] source={}: op {} {}: layout A {:?} gives {}, layout B {:?} gives {}",
                            opts::describe_parse(case.opts),
                            case.source.name(),
                            i,
                            x.op.name(),
                            text::show(&a),
                            show_res(&x.res),
                            text::show(&b),
                            show_res(&y.res)
                        ),
                    );
                    return;
                }
                if x.res.is_err() {
                    // where a parser stands after an error is its own business;
                    // what follows is not comparable across layouts
                    termination_checks(case, &a, &ra, mon);
                    termination_checks(case, &b, &rb, mon);
                    return;
                }
            }
            (x, y) => {
                if ra.fired.is_empty() && rb.fired.is_empty() {
                    mon.violate(
                        "C12",
                        "O12.2",
                        "changing trivia changes the number of items".into(),
                        format!("layout A {:?} gives {} steps, layout B {:?} gives {} steps ({:?} / {:?})", text::show(&a), ra.steps.len(), text::show(&b), rb.steps.len(), x.map(|s| show_res(&s.res)), y.map(|s| show_res(&s.res))),
                    );
                }
                return;
            }
        }
    }
    termination_checks(case, &a, &ra, mon);
    termination_checks(case, &b, &rb, mon);
}

/// O17.5, the rejection clause of C17: ill-formed UTF-8 inside a string, symbol
/// or character is rejected (or, for Emacs unibyte strings, comes back as bytes).
/// Stated so that it needs no second tokenizer: if the text holds no `;` at all
/// (so no comment can hide bytes) and the slice reader reads it to its end without
/// a single error, every byte of it was whitespace or part of a token; bytes that
/// are not UTF-8 cannot be whitespace, punctuation or digits, so they were inside a
/// string, symbol, keyword or character. Then either some returned value is a byte
/// string, or ill-formed input was accepted as text. (Every returned str has
/// already been re-validated by M17.2, so the bytes were not copied verbatim:
/// they were decoded into something - which is exactly what must not happen.)
fn check_rejection(case: &HistCase, input: &[u8], mon: &mut Mon) {
    if std::str::from_utf8(input).is_ok() || input.contains(&b';') || input.len() > 4096 {
        return;
    }
    // Not judged: a backslash directly in front of a raw non-ASCII byte anywhere but
    // in a character literal (`#\`, `?\`). The Emacs string reader copies the byte
    // after a backslash as it is, so `"` C3 `\` B1 `"` reads as "ñ": a well-formed
    // str out of bytes that are not UTF-8 as they stand. Whether that input is
    // "not valid UTF-8 inside a string" or an escape that happens to complete a
    // character is a matter of reading; the first version of this oracle reported
    // it on the unchanged tree, and it was narrowed rather than lexpr changed.
    let escaped_high = input.windows(2).enumerate().any(|(k, w)| w[0] == b'\\' && w[1] >= 0x80 && !(k > 0 && matches!(input[k - 1], b'#' | b'?')));
    if escaped_high {
        mon.count("c17.rejection_not_judged_escaped_byte");
        return;
    }
    // Not judged either: bytes inside an Emacs Lisp string. There byte-valued
    // escapes (`\200`, `\x80`) and raw bytes are mixed by design (unibyte versus
    // multibyte strings), and `"` C3 `\200` `"` reads as "À" - again a well-formed
    // str, again reported by the first version on the unchanged tree.
    let bad_at = match std::str::from_utf8(input) {
        Err(e) => e.valid_up_to(),
        Ok(_) => 0,
    };
    let lex = text::lex_states(input);
    let st = lex.get(bad_at).copied().unwrap_or(text::Lex::End);
    // (Whether a byte is inside a string is lexpr's decision, not this harness's
    // lexer's: `=x" "..."` is a symbol ending in a quote followed by a string, which
    // the harness's lexer reads the other way round - a false alarm at VERIF_SEED=10
    // in the last seed sweep. So under Emacs string syntax a text is judged only if
    // it holds no double quote at all.)
    if opts::parse_fields(case.opts).string == 1 && (st.name().starts_with("string") || input.contains(&b'"')) {
        mon.count("c17.rejection_not_judged_elisp_string");
        return;
    }
    let run = exec(case.opts, &Source::Slice, input, &[], Some(Op::NextValue), mon);
    if run.abnormal || !run.reached_end || run.steps.iter().any(|s| s.res.is_err()) {
        mon.count("c17.rejection_rejected_or_inconclusive");
        return;
    }
    fn has_bytes(v: &Value) -> bool {
        let mut stack = vec![v];
        while let Some(v) = stack.pop() {
            match v {
                Value::Bytes(_) => return true,
                Value::Cons(c) => {
                    for pair in c.iter() {
                        stack.push(pair.car());
                        if !matches!(pair.cdr(), Value::Cons(_) | Value::Null) {
                            stack.push(pair.cdr());
                        }
                    }
                }
                Value::Vector(items) => stack.extend(items.iter()),
                _ => {}
            }
        }
        false
    }
    if run.steps.iter().any(|s| matches!(&s.res, Ok(Some(v)) if has_bytes(v))) {
        mon.count("c17.rejection_bytes_returned");
        return;
    }
    mon.count("c17.rejection_violations_seen");
    mon.violate(
        "C17",
        "O17.5",
        format!("ill-formed UTF-8 is accepted instead of rejected (in {})", st.name()),
        format!(
            "opts[{}]: the slice reader read {:?} to its end without an error and returned no byte string, although the bytes at offset {} are not UTF-8: {}",
            opts::describe_parse(case.opts),
            text::show(input),
            bad_at,
            run.steps.iter().take(4).map(|s| show_res(&s.res)).collect::<Vec<_>>().join(", ")
        ),
    );
}

fn check_any(case: &HistCase, input: &[u8], mon: &mut Mon) {
    let benign = match &case.source {
        Source::Stream(p) => p.faults.is_empty(),
        _ => true,
    };
    let run = exec(case.opts, &case.source, input, &case.ops, case.then_drain, mon);
    mon.count(if benign { "hist.any_benign_runs" } else { "hist.any_faulty_runs" });
    let after_err = {
        let first_err = run.steps.iter().position(|s| s.res.is_err());
        first_err.map(|p| run.steps.len() - p - 1).unwrap_or(0)
    };
    mon.max("hist.max_ops_after_first_error", after_err as u64);
    if after_err >= 2 {
        mon.tuple(format!("after-error|{}|{}", case.source.name(), after_err.min(8)));
    }
    for f in &run.fired {
        let lex = text::lex_states(input);
        let st = lex.get(f.at).copied().unwrap_or(text::Lex::End);
        mon.tuple(format!("hist-fault|{}|{}", st.name(), f.hard.map(|k| k.name()).unwrap_or("Eof")));
        mon.count_dyn(format!("hist_fault_at.{}", st.name()));
        mon.count_dyn(format!("read_fault_fired.{}", f.hard.map(|k| k.name()).unwrap_or("EarlyEof")));
    }
    if run.abnormal {
        return;
    }
    check_rejection(case, input, mon);
    {
        // shape of the history: source, how it started, how it ended, whether the
        // text holds multi-byte or ill-formed sequences
        let text_class = match std::str::from_utf8(input) {
            Ok(s) if s.is_ascii() => "ascii",
            Ok(_) => "multibyte",
            Err(_) => "ill-formed",
        };
        let first = run.steps.first().map(|s| class_of(&s.res)).unwrap_or("none");
        let last = run.steps.last().map(|s| class_of(&s.res)).unwrap_or("none");
        let errs = run.steps.iter().filter(|s| s.res.is_err()).count();
        mon.tuple(format!("any|{}|{}|{}|{}|errs{}", case.source.name(), text_class, first, last, errs.min(6)));
        if text_class != "ascii" && errs > 0 {
            mon.count("hist.non_ascii_text_with_errors");
        }
    }
    let sticky = matches!(&case.source, Source::Stream(p) if p.faults.iter().any(|f| f.sticky));
    if !sticky {
        termination_checks(case, input, &run, mon);
    }
    if !benign {
        return;
    }
    // O6.1 for whole histories: on a benign stream (chunking and Interrupted only)
    // every operation of the history, of whatever kind, gives what the slice
    // reader gives, up to and including the first error
    if matches!(case.source, Source::Stream(_)) {
        let reference = exec(case.opts, &Source::Slice, input, &case.ops, case.then_drain, mon);
        if !reference.abnormal {
            mon.count("c06.history_differential_runs");
            for (i, (a, b)) in run.steps.iter().zip(reference.steps.iter()).enumerate() {
                if !equiv(&a.res, &b.res) {
                    mon.violate(
                        "C06",
                        "O6.1",
                        format!("a history on a benign stream differs from the slice reader ({} vs {})", res_sig(&a.res), res_sig(&b.res)),
                        format!("{}: op {} {}: stream gives {}, slice gives {}", ctx_of(case, input), i, a.op.name(), show_res(&a.res), show_res(&b.res)),
                    );
                    break;
                }
                if a.res.is_err() {
                    break;
                }
            }
        }
    }
    // O12.5 mode agreement: the pure drains and this history, up to and including the first error
    let Some(_) = case.then_drain else { return };
    if case.ops.iter().any(|o| !o.reports_end()) {
        return;
    }
    let mixed: Vec<&PRes> = run.steps.iter().map(|s| &s.res).collect();
    let mut seqs: Vec<(&'static str, Vec<PRes>)> = Vec::new();
    for mode in VALUE_OPS {
        let r = exec(case.opts, &case.source, input, &[], Some(mode), mon);
        if r.abnormal {
            return;
        }
        if !sticky {
            let c = HistCase { ops: vec![], then_drain: Some(mode), ..case.clone() };
            termination_checks(&c, input, &r, mon);
        }
        seqs.push((mode.name(), r.steps.into_iter().map(|s| s.res).collect()));
    }
    mon.count("c12.mode_agreement_runs");
    // The four pure modes are compared over their whole item sequences, errors and
    // what follows them included ("the four ways of iterating agree"); a history
    // that mixes modes is compared up to and including the first error.
    let upto = |s: &[&PRes]| -> usize { s.iter().position(|r| !matches!(r, Ok(Some(_)))).map(|p| p + 1).unwrap_or(s.len()) };
    let base: Vec<&PRes> = seqs[0].1.iter().collect();
    if !sticky {
        for (name, s) in seqs.iter().skip(1) {
            let same = s.len() == base.len() && s.iter().zip(base.iter()).all(|(a, b)| equiv(a, b));
            if !same {
                let i = (0..s.len().min(base.len())).find(|i| !equiv(&s[*i], base[*i])).unwrap_or(s.len().min(base.len()));
                let first_err = base.iter().position(|r| r.is_err());
                if first_err.map(|p| i > p).unwrap_or(false) {
                    mon.violate(
                        "C12",
                        "O12.5",
                        format!("iteration modes disagree after an error ({} vs next_value)", name),
                        format!(
                            "{}: item {} (first error at item {}): next_value loop gives {}, {} gives {}",
                            ctx_of(case, input),
                            i,
                            first_err.unwrap_or(0),
                            base.get(i).map(|r| show_res(r)).unwrap_or_else(|| "<none>".into()),
                            name,
                            s.get(i).map(show_res).unwrap_or_else(|| "<none>".into())
                        ),
                    );
                }
            }
        }
    }
    let nb = upto(&base);
    let compare = |name: &str, other: &[&PRes], mon: &mut Mon| {
        let no = upto(other);
        let same = nb == no && (0..nb).all(|i| equiv(base[i], other[i]));
        if !same {
            let i = (0..nb.min(no)).find(|i| !equiv(base[*i], other[*i])).unwrap_or(nb.min(no));
            mon.violate(
                "C12",
                "O12.5",
                format!("iteration modes disagree ({} vs next_value)", name),
                format!(
                    "{}: item {}: next_value loop gives {}, {} gives {}",
                    ctx_of(case, input),
                    i,
                    base.get(i).map(|r| show_res(r)).unwrap_or_else(|| "<none>".into()),
                    name,
                    other.get(i).map(|r| show_res(r)).unwrap_or_else(|| "<none>".into())
                ),
            );
        }
    };
    for (name, s) in seqs.iter().skip(1) {
        let o: Vec<&PRes> = s.iter().collect();
        compare(name, &o, mon);
    }
    compare("mixed history", &mixed, mon);
}

fn depth_of(shape: &PathShape) -> usize {
    match shape {
        PathShape::Nest { count, .. } | PathShape::Mixed { count, .. } => *count,
    }
}

fn closed_of(shape: &PathShape) -> bool {
    match shape {
        PathShape::Nest { closed, .. } | PathShape::Mixed { closed, .. } => *closed,
    }
}

fn check_deep(case: &HistCase, shape: &PathShape, mon: &mut Mon) {
    let input = text::build_path(shape);
    let run = exec(case.opts, &case.source, &input, &case.ops, case.then_drain, mon);
    mon.count("c03.deep_runs");
    mon.max("c03.max_nesting_depth", depth_of(shape) as u64);
    if run.abnormal {
        return;
    }
    let d = depth_of(shape);
    let first = run.steps.first().map(|s| &s.res);
    let benign = match &case.source {
        Source::Stream(p) => p.faults.is_empty(),
        _ => true,
    };
    let shape_name = match shape {
        PathShape::Nest { opener, .. } => format!("{:?}", opener),
        PathShape::Mixed { openers, .. } => format!("mix{:?}", openers),
    };
    mon.tuple(format!("deep|{}|{}|{}", shape_name, if d > 128 { "over" } else if d <= 100 { "under" } else { "between" }, first.map(class_of).unwrap_or("none")));
    if !benign {
        return;
    }
    if d > 128 {
        // O3.2: rejected, and the call returned at all
        if let Some(Ok(_)) = first {
            mon.violate(
                "C03",
                "O3.2",
                format!("nesting deeper than the documented limit is accepted ({})", shape_name),
                format!("opts[{}] source={}: {} levels of {} accepted: {}", opts::describe_parse(case.opts), case.source.name(), d, shape_name, first.map(show_res).unwrap_or_default()),
            );
        }
    } else if d <= 100 && closed_of(shape) {
        // brackets need not be openers under every option set; establish that one level parses
        let one = match shape {
            PathShape::Nest { opener, .. } => text::build_path(&PathShape::Nest { opener: opener.clone(), count: 1, closed: true }),
            PathShape::Mixed { openers, .. } => text::build_path(&PathShape::Mixed { openers: openers.clone(), count: openers.len(), closed: true }),
        };
        let ok_one = matches!(exec(case.opts, &Source::Slice, &one, &[Op::NextValue], None, mon).steps.first().map(|s| &s.res), Some(Ok(Some(_))));
        if ok_one {
            if let Some(Err(e)) = first {
                mon.violate(
                    "C03",
                    "O3.3",
                    format!("nesting of {} levels is refused ({}; {})", if d <= 100 { "at most 100" } else { "" }, shape_name, e.msg),
                    format!("opts[{}] source={}: {} levels of {} refused: {}", opts::describe_parse(case.opts), case.source.name(), d, shape_name, first.map(show_res).unwrap_or_default()),
                );
            }
        }
    }
}

fn check_storm(case: &HistCase, blobs: &[StormBlob], probe_depth: usize, mon: &mut Mon) {
    let (input, probe) = storm_text(blobs, probe_depth);
    mon.count("c03.storm_runs");
    // (i) the probe parses on a fresh parser
    let fresh = exec(case.opts, &Source::Slice, &probe, &[Op::NextValue], None, mon);
    let Some(Ok(Some(want))) = fresh.steps.first().map(|s| s.res.clone()) else {
        if probe_depth <= 100 && !fresh.abnormal {
            mon.violate(
                "C03",
                "O3.3",
                "nesting of at most 100 levels is refused (fresh parser)".into(),
                format!("opts[{}]: a {}-level datum is refused by a fresh parser: {:?}", opts::describe_parse(case.opts), probe_depth, fresh.steps.first().map(|s| show_res(&s.res))),
            );
        }
        return;
    };
    let run = exec(case.opts, &case.source, &input, &case.ops, case.then_drain, mon);
    let errors = run.steps.iter().filter(|s| s.res.is_err()).count();
    mon.max("c03.max_errors_on_one_parser", errors as u64);
    if run.abnormal {
        return;
    }
    let benign = match &case.source {
        Source::Stream(p) => p.faults.is_empty(),
        _ => true,
    };
    termination_checks(case, &input, &run, mon);
    // Transient read errors (one-shot hard errors) lose the datum in flight but
    // must leave the depth accounting intact like any other error: the probes
    // still apply whenever the sentinel in front of them was read back.
    let transient_only = match &case.source {
        Source::Stream(p) => p.faults.iter().all(|f| !f.sticky && matches!(f.kind, ReadFaultKind::Hard(_))),
        _ => true,
    };
    if !benign && !transient_only {
        return;
    }
    if !benign {
        let sentinel_at = input.windows(SENTINEL.len()).position(|w| w == SENTINEL.as_bytes()).unwrap_or(0);
        if run.fired.iter().any(|f| f.at + 2 >= sentinel_at) {
            // (a shrunk or hand-made case may aim a fault at the probes themselves)
            mon.count("c03.storm_inconclusive");
            return;
        }
        mon.count("c03.storm_with_transient_faults");
    }
    let sentinel = Value::symbol(SENTINEL);
    let pos = run.steps.iter().position(|s| matches!(&s.res, Ok(Some(v)) if *v == sentinel));
    match pos {
        None => mon.count("c03.storm_inconclusive"),
        Some(p) => {
            mon.count("c03.storm_conclusive");
            mon.tuple(format!("storm|{}|errors{}", case.source.name(), errors.min(40)));
            // the next value-returning step must be the probe
            let next = run.steps[p + 1..].iter().find(|s| s.op != Op::ExpectEnd);
            match next {
                Some(s) if matches!(&s.res, Ok(Some(v)) if same_value(v, &want)) => {}
                Some(s) => {
                    mon.violate(
                        "C03",
                        "O3.3",
                        format!("after earlier errors a {}-level datum is refused ({})", if probe_depth <= 100 { "100" } else { "deep" }, res_sig(&s.res)),
                        format!(
                            "opts[{}] source={}: after {} errors on this parser the sentinel was read back, but the {}-level probe gave {}",
                            opts::describe_parse(case.opts),
                            case.source.name(),
                            errors,
                            probe_depth,
                            show_res(&s.res)
                        ),
                    );
                }
                None => mon.count("c03.storm_inconclusive"),
            }
        }
    }
    // O3.2 across calls: whatever came before, a datum nested beyond the limit is refused
    let sentinel2 = Value::symbol(SENTINEL2);
    if let Some(p) = run.steps.iter().position(|s| matches!(&s.res, Ok(Some(v)) if *v == sentinel2)) {
        mon.count("c03.storm_overdeep_probe_reached");
        if let Some(s) = run.steps[p + 1..].iter().find(|s| s.op != Op::ExpectEnd) {
            if matches!(s.res, Ok(Some(_))) {
                mon.violate(
                    "C03",
                    "O3.2",
                    "after earlier calls on the same parser, nesting deeper than the documented limit is accepted".into(),
                    format!(
                        "opts[{}] source={}: after {} steps ({} errors) on this parser a {}-level datum was accepted",
                        opts::describe_parse(case.opts),
                        case.source.name(),
                        p,
                        errors,
                        OVER_DEEP
                    ),
                );
            }
        }
    }
}

pub fn check_hist_case(case: &HistCase, mon: &mut Mon) {
    match &case.workload {
        Workload::Queue { popts, values, .. } => check_queue(case, *popts, values, mon),
        Workload::Trivia { popts, values, gaps_a, gaps_b } => check_trivia(case, *popts, values, gaps_a, gaps_b, mon),
        Workload::Any { input } => check_any(case, input, mon),
        Workload::Deep { shape } => check_deep(case, shape, mon),
        Workload::Storm { blobs, probe_depth } => check_storm(case, blobs, *probe_depth, mon),
        Workload::Wide { count, .. } => {
            // totality only: the monitors inside `exec` (panic, budget) and the
            // runner's process-death attribution are the oracle
            let input = case.input();
            let run = exec_with(case.opts, &case.source, &input, &case.ops, case.then_drain, true, mon);
            mon.count("c03.wide_runs");
            mon.max("c03.max_list_width", *count as u64);
            let first = run.steps.first().map(|s| class_of(&s.res)).unwrap_or("none");
            mon.tuple(format!("wide|{}|{}|{}", case.source.name(), case.ops.first().map(|o| o.name()).unwrap_or("drain"), first));
        }
    }
}

// ---------------------------------------------------------------------------
// shrinking

fn drop_datum(values: &[V], popts: u32, gaps: &[GapBytes], ix: usize) -> Option<(Vec<V>, Vec<GapBytes>)> {
    let toks = text::tokens_of(values, popts);
    if gaps.len() != toks.len() + 1 {
        return None;
    }
    let mut nv = values.to_vec();
    nv.remove(ix);
    let mut ng = Vec::new();
    for (i, t) in toks.iter().enumerate() {
        if t.datum != ix {
            ng.push(gaps[i].clone());
        }
    }
    ng.push(gaps[toks.len()].clone());
    Some((nv, ng))
}

fn simple_gaps(toks: &[Tok]) -> Vec<GapBytes> {
    let mut g: Vec<GapBytes> = toks.iter().map(|t| GapBytes(if t.gap_required { b" ".to_vec() } else { vec![] })).collect();
    g.push(GapBytes(vec![]));
    g
}

/// Is `b` made only of whitespace and complete line comments? (`last` allows a
/// final comment without newline.) Shrinking must not turn trivia into tokens.
pub fn valid_trivia(b: &[u8], last: bool) -> bool {
    let mut i = 0;
    while i < b.len() {
        match b[i] {
            b' ' | b'\t' | b'\r' | b'\n' | 0x0C => i += 1,
            b';' => match b[i..].iter().position(|c| *c == b'\n') {
                Some(p) => i += p + 1,
                None => return last,
            },
            _ => return false,
        }
    }
    true
}

fn gap_candidates(gaps: &[GapBytes], toks: &[Tok]) -> Vec<Vec<GapBytes>> {
    let mut out = Vec::new();
    let simple = simple_gaps(toks);
    if gaps != &simple[..] && simple.len() == gaps.len() {
        // all but one gap simplified
        for keep in 0..gaps.len() {
            let mut g = simple.clone();
            g[keep] = gaps[keep].clone();
            if g != gaps {
                out.push(g);
            }
        }
        for i in 0..gaps.len() {
            if gaps[i] != simple[i] {
                let mut g = gaps.to_vec();
                g[i] = simple[i].clone();
                out.push(g);
            }
        }
    }
    // shorten individual gaps byte-wise
    for i in 0..gaps.len() {
        let required = toks.get(i).map(|t| t.gap_required).unwrap_or(false);
        let b = &gaps[i].0;
        if b.len() > 1 {
            for j in 0..b.len().min(12) {
                let mut nb = b.clone();
                nb.remove(j);
                if !valid_trivia(&nb, i + 1 == gaps.len()) {
                    continue;
                }
                if !(required && nb.is_empty()) {
                    let mut g = gaps.to_vec();
                    g[i] = GapBytes(nb);
                    out.push(g);
                }
            }
        }
    }
    out
}

pub fn candidates(c: &HistCase) -> Vec<HistCase> {
    let mut out = Vec::new();
    // ops
    for i in 0..c.ops.len() {
        let mut o = c.ops.clone();
        o.remove(i);
        out.push(HistCase { ops: o, ..c.clone() });
    }
    if c.ops.len() > 3 {
        out.push(HistCase { ops: c.ops[..c.ops.len() / 2].to_vec(), ..c.clone() });
        out.push(HistCase { ops: c.ops[c.ops.len() / 2..].to_vec(), ..c.clone() });
    }
    for i in 0..c.ops.len() {
        if c.ops[i] != Op::NextValue {
            let mut o = c.ops.clone();
            o[i] = Op::NextValue;
            out.push(HistCase { ops: o, ..c.clone() });
        }
    }
    match c.then_drain {
        Some(Op::NextValue) => {}
        Some(_) => out.push(HistCase { then_drain: Some(Op::NextValue), ..c.clone() }),
        None => {}
    }
    if c.then_drain.is_some() && !c.ops.is_empty() {
        out.push(HistCase { ops: vec![], ..c.clone() });
    }
    // source
    match &c.source {
        Source::Stream(p) => {
            for q in engine::read_plan_candidates(p) {
                out.push(HistCase { source: Source::Stream(q), ..c.clone() });
            }
            // (the slice reader recomputes a position per datum: very wide data
            // through the datum API must stay on the stream, or a candidate takes
            // minutes)
            let datum_ops = c.ops.iter().chain(c.then_drain.iter()).any(|o| matches!(o, Op::NextDatum | Op::ExpectDatum | Op::DatumIterNext));
            let wide = matches!(c.workload, Workload::Wide { .. });
            if p.faults.is_empty() && !(wide && datum_ops) {
                out.push(HistCase { source: Source::Slice, ..c.clone() });
            }
        }
        Source::Str => out.push(HistCase { source: Source::Slice, ..c.clone() }),
        Source::Slice => {}
    }
    // workload
    match &c.workload {
        Workload::Queue { popts, values, gaps } => {
            for i in 0..values.len() {
                if values.len() > 1 {
                    if let Some((nv, ng)) = drop_datum(values, *popts, gaps, i) {
                        out.push(HistCase { workload: Workload::Queue { popts: *popts, values: nv, gaps: ng }, ..c.clone() });
                    }
                }
            }
            let toks = text::tokens_of(values, *popts);
            for g in gap_candidates(gaps, &toks) {
                out.push(HistCase { workload: Workload::Queue { popts: *popts, values: values.clone(), gaps: g }, ..c.clone() });
            }
            for (i, v) in values.iter().enumerate() {
                for s in v.shrinks() {
                    let mut nv = values.clone();
                    nv[i] = s;
                    let nt = text::tokens_of(&nv, *popts);
                    // keep the outer gaps of datum i, simplify its inner gaps
                    let mut ng: Vec<GapBytes> = Vec::new();
                    let old_first: Vec<usize> = (0..values.len()).map(|d| toks.iter().position(|t| t.datum == d).unwrap_or(0)).collect();
                    for (k, t) in nt.iter().enumerate() {
                        let first_of_datum = nt.iter().position(|x| x.datum == t.datum) == Some(k);
                        if first_of_datum {
                            ng.push(gaps.get(old_first[t.datum]).cloned().unwrap_or(GapBytes(b" ".to_vec())));
                        } else if t.datum != i {
                            // same relative position as before
                            let rel = k - nt.iter().position(|x| x.datum == t.datum).unwrap();
                            ng.push(gaps.get(old_first[t.datum] + rel).cloned().unwrap_or(GapBytes(b" ".to_vec())));
                        } else {
                            ng.push(GapBytes(if t.gap_required { b" ".to_vec() } else { vec![] }));
                        }
                    }
                    ng.push(gaps.last().cloned().unwrap_or(GapBytes(vec![])));
                    out.push(HistCase { workload: Workload::Queue { popts: *popts, values: nv, gaps: ng }, ..c.clone() });
                }
            }
            if *popts != opts::PRINT_DEFAULT && c.opts != opts::PARSE_DEFAULT {
                let nt = text::tokens_of(values, opts::PRINT_DEFAULT);
                if nt.len() == toks.len() {
                    out.push(HistCase { opts: opts::PARSE_DEFAULT, workload: Workload::Queue { popts: opts::PRINT_DEFAULT, values: values.clone(), gaps: gaps.clone() }, ..c.clone() });
                }
            }
        }
        Workload::Trivia { popts, values, gaps_a, gaps_b } => {
            for i in 0..values.len() {
                if values.len() > 1 {
                    if let (Some((nv, na)), Some((_, nb))) = (drop_datum(values, *popts, gaps_a, i), drop_datum(values, *popts, gaps_b, i)) {
                        out.push(HistCase { workload: Workload::Trivia { popts: *popts, values: nv, gaps_a: na, gaps_b: nb }, ..c.clone() });
                    }
                }
            }
            let toks = text::tokens_of(values, *popts);
            for g in gap_candidates(gaps_a, &toks) {
                out.push(HistCase { workload: Workload::Trivia { popts: *popts, values: values.clone(), gaps_a: g, gaps_b: gaps_b.clone() }, ..c.clone() });
            }
            for g in gap_candidates(gaps_b, &toks) {
                out.push(HistCase { workload: Workload::Trivia { popts: *popts, values: values.clone(), gaps_a: gaps_a.clone(), gaps_b: g }, ..c.clone() });
            }
            for (i, v) in values.iter().enumerate() {
                for s in v.shrinks() {
                    let mut nv = values.clone();
                    nv[i] = s;
                    let nt = text::tokens_of(&nv, *popts);
                    if nt.len() == toks.len() {
                        out.push(HistCase { workload: Workload::Trivia { popts: *popts, values: nv, gaps_a: gaps_a.clone(), gaps_b: gaps_b.clone() }, ..c.clone() });
                    }
                }
            }
        }
        Workload::Any { input } => {
            for (s, e) in shrink::byte_removals(input.len()) {
                let mut d = c.clone();
                d.workload = Workload::Any { input: shrink::remove_range(input, s, e) };
                if let Source::Stream(p) = &mut d.source {
                    for f in p.faults.iter_mut() {
                        f.at = shrink::shift_offset(f.at, s, e);
                    }
                }
                out.push(d);
            }
        }
        Workload::Deep { shape } => {
            let (count, rebuild): (usize, Box<dyn Fn(usize) -> PathShape>) = match shape {
                PathShape::Nest { opener, count, closed } => {
                    let (o, cl) = (opener.clone(), *closed);
                    (*count, Box::new(move |n| PathShape::Nest { opener: o.clone(), count: n, closed: cl }))
                }
                PathShape::Mixed { openers, count, closed } => {
                    let (o, cl) = (openers.clone(), *closed);
                    (*count, Box::new(move |n| PathShape::Mixed { openers: o.clone(), count: n, closed: cl }))
                }
            };
            for n in [129, 200, 1000, count / 2, count.saturating_sub(1)] {
                if n < count && n > 0 {
                    out.push(HistCase { workload: Workload::Deep { shape: rebuild(n) }, ..c.clone() });
                }
            }
            if let PathShape::Mixed { openers, count, closed } = shape {
                for o in openers {
                    out.push(HistCase { workload: Workload::Deep { shape: PathShape::Nest { opener: o.clone(), count: *count, closed: *closed } }, ..c.clone() });
                }
            }
        }
        Workload::Wide { opener, element, count, tail } => {
            for n in [count / 2, count.saturating_sub(1), 100_000, 50_000, 20_000, 1000] {
                if n < *count && n > 0 {
                    out.push(HistCase { workload: Workload::Wide { opener: opener.clone(), element: element.clone(), count: n, tail: tail.clone() }, ..c.clone() });
                }
            }
            if element != "a " {
                out.push(HistCase { workload: Workload::Wide { opener: opener.clone(), element: "a ".into(), count: *count, tail: tail.clone() }, ..c.clone() });
            }
            if !tail.is_empty() {
                out.push(HistCase { workload: Workload::Wide { opener: opener.clone(), element: element.clone(), count: *count, tail: String::new() }, ..c.clone() });
            }
        }
        Workload::Storm { blobs, probe_depth } => {
            for i in 0..blobs.len() {
                let mut b = blobs.clone();
                b.remove(i);
                out.push(HistCase { workload: Workload::Storm { blobs: b, probe_depth: *probe_depth }, ..c.clone() });
            }
            if blobs.len() > 3 {
                out.push(HistCase { workload: Workload::Storm { blobs: blobs[..blobs.len() / 2].to_vec(), probe_depth: *probe_depth }, ..c.clone() });
            }
            for (i, b) in blobs.iter().enumerate() {
                let smaller = match b {
                    StormBlob::Openers { opener, n } if *n > 129 => Some(StormBlob::Openers { opener: opener.clone(), n: (*n / 2).max(129) }),
                    StormBlob::Balanced { opener, d } if *d > 129 => Some(StormBlob::Balanced { opener: opener.clone(), d: 129 }),
                    _ => None,
                };
                if let Some(s) = smaller {
                    let mut nb = blobs.clone();
                    nb[i] = s;
                    out.push(HistCase { workload: Workload::Storm { blobs: nb, probe_depth: *probe_depth }, ..c.clone() });
                }
            }
        }
    }
    for o in engine::opts_candidates(c.opts) {
        out.push(HistCase { opts: o, ..c.clone() });
    }
    out
}

// ---------------------------------------------------------------------------
// scenario generation

fn draw_ops(rng: &mut Rng, n_values: usize, value_only: bool) -> (Vec<Op>, Option<Op>) {
    let n = match rng.below(10) {
        0..=1 => 0,
        2..=7 => rng.small(n_values + 4),
        _ => rng.urange(0, 24),
    };
    let ops: Vec<Op> = (0..n).map(|_| if value_only { *rng.pick(&VALUE_OPS) } else { *rng.pick(&ALL_OPS) }).collect();
    let drain = if rng.chance(5, 6) { Some(*rng.pick(&VALUE_OPS)) } else { None };
    (ops, drain)
}

fn draw_source(rng: &mut Rng, len: usize, valid_utf8: bool, faults: u32) -> Source {
    match rng.below(10) {
        0..=1 if valid_utf8 && faults == 0 => Source::Str,
        2..=3 if faults == 0 => Source::Slice,
        _ => {
            let mut plan = engine::draw_read_plan(rng, len);
            for n in 0..faults {
                let at = rng.usize_below(len + 1);
                let kind = match rng.below(10) {
                    0..=2 => ReadFaultKind::Eof,
                    3..=5 => ReadFaultKind::Hard(*rng.pick(&[Kind::WouldBlock, Kind::TimedOut])),
                    _ => ReadFaultKind::Hard(*rng.pick(&KINDS)),
                };
                plan.faults.push(ReadFault { at, kind, sticky: rng.chance(1, 4), id: 300 + u64::from(n), payload: payload_for(rng.usize_below(8)) });
            }
            Source::Stream(plan)
        }
    }
}

fn draw_pair(rng: &mut Rng) -> (u32, u32) {
    match rng.below(20) {
        0..=8 => (opts::PRINT_DEFAULT, opts::PARSE_DEFAULT),
        9..=15 => (opts::print_elisp_index(), opts::parse_elisp_index()),
        _ => {
            let p = rng.below(u64::from(opts::N_PRINT)) as u32;
            (p, text::matching_parse_opts(rng, p))
        }
    }
}

fn run_and_collect(case: HistCase, mon: &mut Mon, found: &mut Vec<Found>) {
    mon.before_case(|| serde_json::to_string(&AnyCase::Hist(case.clone())).unwrap_or_default());
    let before = mon.violations.len();
    check_hist_case(&case, mon);
    if mon.violations.len() > before {
        for v in mon.violations[before..].to_vec() {
            found.push(Found { violation: v, case: AnyCase::Hist(case.clone()) });
        }
    }
}

pub fn c12_run(seed: u64, i: u64, _tier: Tier, mon: &mut Mon, found: &mut Vec<Found>) {
    let mut rng = Rng::new(run_seed(seed, TAG_C12, i));
    let family = rng.below(20);
    match family {
        0..=10 => {
            // W-queue (strict, or faulty 1 time in 4)
            let (popts, opts_ix) = draw_pair(&mut rng);
            let elisp = opts::parse_fields(opts_ix).chr == 1;
            let mask = ValMask::draw(&mut rng, elisp);
            let n = 1 + rng.small(11);
            let mut values: Vec<V> = Vec::new();
            for _ in 0..n {
                let v = val::gen_value(&mut rng, &mask, 3);
                if standalone(&v, popts, opts_ix).is_some() {
                    values.push(v);
                } else {
                    mon.count("c12.value_dropped_not_standalone");
                }
            }
            mon.add("c12.values_generated", n as u64);
            let faults = if rng.chance(1, 4) { 1 + rng.below(2) as u32 } else { 0 };
            let toks = text::tokens_of(&values, popts);
            let source_is_str = rng.chance(1, 5) && faults == 0;
            let tm = TriviaMask::draw(&mut rng, !source_is_str);
            let fc = rng.chance(1, 6);
            let gaps: Vec<GapBytes> = text::gen_gaps(&mut rng, &tm, &toks, fc).into_iter().map(GapBytes).collect();
            let input_len = text::assemble(&toks, &gaps_vec(&gaps)).len();
            let source = if source_is_str { Source::Str } else { draw_source(&mut rng, input_len, false, faults) };
            let (ops, then_drain) = draw_ops(&mut rng, values.len(), false);
            let case = HistCase { opts: opts_ix, source, workload: Workload::Queue { popts, values, gaps }, ops, then_drain };
            if i < 3 {
                mon.samples_push(|| serde_json::json!({"run": i, "engine": "E-HIST", "workload": "W-queue", "opts": opts::describe_parse(case.opts), "text": text::show(&case.input()), "ops": case.ops, "then_drain": case.then_drain, "source": case.source}));
            }
            mon.count(if faults == 0 { "c12.config_strict" } else { "c12.config_faulty" });
            run_and_collect(case, mon, found);
        }
        11..=14 => {
            // W-trivia
            let (popts, opts_ix) = draw_pair(&mut rng);
            let elisp = opts::parse_fields(opts_ix).chr == 1;
            let mask = ValMask::draw(&mut rng, elisp);
            let n = 1 + rng.small(5);
            let values: Vec<V> = (0..n).map(|_| val::gen_value(&mut rng, &mask, 3)).collect();
            let toks = text::tokens_of(&values, popts);
            let source_is_str = rng.chance(1, 4);
            let ta = TriviaMask::draw(&mut rng, !source_is_str);
            let tb = if rng.chance(1, 3) { TriviaMask::blanks_only() } else { TriviaMask::draw(&mut rng, !source_is_str) };
            let fc = rng.chance(1, 6);
            let gaps_a: Vec<GapBytes> = text::gen_gaps(&mut rng, &ta, &toks, fc).into_iter().map(GapBytes).collect();
            let gaps_b: Vec<GapBytes> = text::gen_gaps(&mut rng, &tb, &toks, false).into_iter().map(GapBytes).collect();
            let len = text::assemble(&toks, &gaps_vec(&gaps_a)).len();
            let source = if source_is_str { Source::Str } else { draw_source(&mut rng, len, false, 0) };
            let then_drain = Some(*rng.pick(&VALUE_OPS));
            let case = HistCase { opts: opts_ix, source, workload: Workload::Trivia { popts, values, gaps_a, gaps_b }, ops: vec![], then_drain };
            run_and_collect(case, mon, found);
        }
        _ => {
            // W-any: termination, progress, mode agreement on arbitrary text
            let mut opts_ix = opts::draw_parse(&mut rng);
            let (mut input, _) = engine::draw_text(&mut rng, &mut opts_ix, 2048);
            if rng.chance(1, 14) {
                // a long stream of small datums and of errors raised inside every
                // nesting construct: iteration modes must agree all the way through
                let (blobs, big) = draw_storm(&mut rng);
                if !big {
                    input = storm_text(&blobs, 3).0;
                    mon.count("c12.storm_text_runs");
                }
            }
            let valid = std::str::from_utf8(&input).is_ok();
            let faults = if rng.chance(1, 5) { 1 } else { 0 };
            let source = draw_source(&mut rng, input.len(), valid, faults);
            let (ops, _) = draw_ops(&mut rng, 4, true);
            let then_drain = Some(*rng.pick(&VALUE_OPS));
            let case = HistCase { opts: opts_ix, source, workload: Workload::Any { input }, ops, then_drain };
            if i < 40 && family == 15 {
                mon.samples_push(|| serde_json::json!({"run": i, "engine": "E-HIST", "workload": "W-any", "case": case}));
            }
            run_and_collect(case, mon, found);
        }
    }
    mon.count("scenarios");
}

/// Storm sizes: (blobs, needs_stream). lexpr computes an error position on a
/// slice by rescanning the input from the start, for every level it unwinds, so
/// long storms run on the stream source where positions are O(1).
fn draw_storm(rng: &mut Rng) -> (Vec<StormBlob>, bool) {
    let (k, dmax, big) = match rng.below(20) {
        0..=15 => (rng.urange(1, 6), 200, false),
        16..=18 => (rng.urange(30, 45), 140, true),
        _ => (rng.urange(130, 160), 132, true),
    };
    if rng.chance(1, 4) {
        // success storm: many small well-formed datums, every nesting construct
        let k = if rng.chance(1, 2) { rng.urange(130, 300) } else { rng.urange(1, 60) };
        const GOOD: &[&str] = &[
            "#()", "#(a)", "(a)", "[a]", "'a", "`(a ,b)", "#(#() #())", "(a . b)", "#u8(1 2)", "((a))", "#(#(a) b)", "()", "[[]]", ",@(a)", "(a #(b) 'c)", "#((a) [b])",
            "(() . ())", "''a",
        ];
        let one = rng.chance(1, 2);
        let pick = *rng.pick(GOOD);
        let blobs = (0..k).map(|_| StormBlob::Good(if one { pick.to_string() } else { (*rng.pick(GOOD)).to_string() })).collect();
        return (blobs, false);
    }
    if rng.chance(1, 4) {
        // storm of errors raised *inside* a nesting construct (a bad token, a
        // stray closer or nothing at all after one to three openers of any kind)
        let k = if rng.chance(1, 2) { rng.urange(130, 300) } else { rng.urange(1, 60) };
        let fixed_opener = if rng.chance(1, 2) { Some(*rng.pick(text::OPENERS)) } else { None };
        const BAD: &[&str] = &["#z", ")", "]", "#\\xZZ", "\"\\q\"", "1.5.5x", "#u8(300)", "", "|", ". ."];
        let blobs = (0..k)
            .map(|_| {
                let depth = rng.urange(1, 3);
                let mut t = String::new();
                let mut closers = Vec::new();
                for _ in 0..depth {
                    let o = fixed_opener.unwrap_or_else(|| *rng.pick(text::OPENERS));
                    t.push_str(o);
                    closers.push(text::closer_for(o));
                }
                t.push_str(*rng.pick(BAD));
                if rng.chance(2, 3) {
                    while let Some(c) = closers.pop() {
                        t.push_str(c);
                    }
                }
                StormBlob::Raw(t.into_bytes())
            })
            .collect();
        return (blobs, false);
    }
    let shape = rng.below(4);
    let blobs = (0..k)
        .map(|_| {
            let opener = (*rng.pick(&["(", "(", "#(", "[", "(a "])).to_string();
            match shape {
                0 => StormBlob::Openers { opener, n: rng.urange(129, dmax) },
                1 => StormBlob::Short { opener, d: 128 },
                2 => StormBlob::Balanced { opener, d: rng.urange(129, dmax) },
                _ => match rng.below(3) {
                    0 => StormBlob::Balanced { opener, d: rng.urange(129, dmax) },
                    1 => StormBlob::Short { opener, d: rng.urange(128, dmax) },
                    _ => StormBlob::Raw(text::gen_soup(rng, 4)),
                },
            }
        })
        .collect();
    (blobs, big)
}

pub fn c03_run(seed: u64, i: u64, tier: Tier, mon: &mut Mon, found: &mut Vec<Found>) {
    let mut rng = Rng::new(run_seed(seed, TAG_C03, i));
    // Every twelfth run index walks through all inputs of one and two bytes in
    // order (256 + 65536 of them): the quick tier covers the whole of those two
    // spaces (under a drawn option set, source and history) instead of a sample.
    if i % 12 == 0 && (i / 12) < 256 + 65536 {
        let n = (i / 12) as usize;
        let input = if n < 256 { vec![n as u8] } else { vec![((n - 256) >> 8) as u8, ((n - 256) & 0xFF) as u8] };
        let opts_ix = if rng.chance(1, 2) { rng.below(u64::from(opts::N_PARSE)) as u32 } else { opts::draw_parse(&mut rng) };
        mon.tiny(&input);
        mon.opts_seen(opts_ix);
        mon.count("c03.enumerated_tiny_inputs");
        let valid = std::str::from_utf8(&input).is_ok();
        let nfaults = if rng.chance(1, 3) { 1 } else { 0 };
        let source = draw_source(&mut rng, input.len(), valid, nfaults);
        let (ops, drain) = draw_ops(&mut rng, 3, false);
        let case = HistCase { opts: opts_ix, source, workload: Workload::Any { input }, ops, then_drain: drain.or(Some(Op::NextValue)) };
        run_and_collect(case, mon, found);
        mon.count("scenarios");
        return;
    }
    // Another residue class walks through the inputs of three bytes, one block of
    // 256 (a fixed two-byte prefix, every third byte) per run index. The thorough
    // tier runs all 65536 blocks; the quick tier every sixteenth block, the
    // residue chosen by VERIF_SEED, so that sixteen seeds cover the space. Each
    // input is drained once, under a drawn source and iteration style.
    let blocks = if tier == Tier::Thorough { 65536 } else { 4096 };
    if i % 12 == 6 && (i / 12) < blocks {
        let n = if tier == Tier::Thorough { (i / 12) as usize } else { ((i / 12) * 16 + seed % 16) as usize };
        let opts_ix = if rng.chance(1, 2) { rng.below(u64::from(opts::N_PARSE)) as u32 } else { opts::draw_parse(&mut rng) };
        mon.opts_seen(opts_ix);
        for b in 0..=255u8 {
            let input = vec![(n >> 8) as u8, (n & 0xFF) as u8, b];
            let valid = std::str::from_utf8(&input).is_ok();
            let source = draw_source(&mut rng, input.len(), valid, 0);
            let drain = *rng.pick(&[Op::NextValue, Op::NextDatum, Op::ValueIterNext, Op::DatumIterNext, Op::IteratorNext]);
            let case = HistCase { opts: opts_ix, source, workload: Workload::Any { input }, ops: vec![], then_drain: Some(drain) };
            run_and_collect(case, mon, found);
        }
        mon.tiny3_block(n);
        mon.add("c03.enumerated_len3_inputs", 256);
        mon.count("scenarios");
        return;
    }
    // Width instead of depth, one run in 300: a flat list (or vector, or dotted
    // list) of up to 400 000 elements, closed, cut short, or ending in an error,
    // through every API. The slice and str readers recompute a position per datum
    // (quadratic in the datum API), so those sources get the value API only.
    if rng.chance(1, 300) {
        let opts_ix = opts::draw_parse(&mut rng);
        let opener = (*rng.pick(&["(", "(", "(", "[", "#(", "(x . (", "'("])).to_string();
        let element = (*rng.pick(&["a ", "a ", "1 ", "\"s\" ", "(b) ", "#t ", "'q ", "#(1) ", "é "])).to_string();
        // one time in eight the wide thing is a byte vector
        let (opener, element) = if rng.chance(1, 8) { ((*rng.pick(&["#u8(", "#vu8(", "(#u8("])).to_string(), (*rng.pick(&["1 ", "255 ", "0 "])).to_string()) } else { (opener, element) };
        let count = *rng.pick(&[5_000usize, 20_000, 60_000, 150_000, 400_000]);
        let tail = (*rng.pick(&[")", ")", "", "", " . z)", " . z w)", "]", " #z)", ") a", "\"unterminated"])).to_string();
        let len = opener.len() + element.len() * count + tail.len();
        let stream = rng.chance(2, 3);
        let source = if stream {
            let mut plan = engine::draw_read_plan(&mut rng, len);
            if rng.chance(1, 4) {
                plan.faults.push(ReadFault { at: rng.usize_below(len + 1), kind: ReadFaultKind::Hard(*rng.pick(&KINDS)), sticky: rng.coin(), id: 310, payload: payload_for(rng.usize_below(8)) });
            }
            Source::Stream(plan)
        } else if rng.coin() && element != "é " {
            Source::Slice
        } else {
            Source::Str
        };
        let op = if stream {
            *rng.pick(&[Op::NextDatum, Op::NextDatum, Op::ExpectDatum, Op::DatumIterNext, Op::NextValue, Op::ValueIterNext, Op::IteratorNext])
        } else {
            *rng.pick(&[Op::NextValue, Op::ExpectValue, Op::ValueIterNext, Op::IteratorNext])
        };
        let drain = if stream { Some(*rng.pick(&[Op::NextDatum, Op::NextValue])) } else { Some(Op::NextValue) };
        let case = HistCase { opts: opts_ix, source, workload: Workload::Wide { opener, element, count, tail }, ops: vec![op], then_drain: drain };
        run_and_collect(case, mon, found);
        mon.count("scenarios");
        return;
    }
    let family = rng.below(100);
    match family {
        0..=79 => {
            // robustness: arbitrary bytes, all sources, full fault space, histories that go on after errors
            let mut opts_ix = if rng.chance(1, 2) { rng.below(u64::from(opts::N_PARSE)) as u32 } else { opts::draw_parse(&mut rng) };
            let (mut input, fam) = engine::draw_text(&mut rng, &mut opts_ix, 4096);
            if rng.chance(1, 4) {
                input = text::mutate(&mut rng, &input);
            }
            let long_token = rng.chance(1, 150);
            if long_token {
                input = text::gen_long_token_text(&mut rng, opts::parse_fields(opts_ix));
                mon.count("c03.long_token_runs");
            }
            let as_str = rng.chance(1, 4);
            if as_str {
                input = text::repair_utf8(&input).into_bytes();
            }
            if input.len() <= 2 {
                mon.tiny(&input);
            }
            mon.count_dyn(format!("c03.family.{}", fam.name()));
            mon.opts_seen(opts_ix);
            let faults = match rng.below(10) {
                0..=4 => 0,
                5..=7 => 1,
                8 => 2,
                _ => 3,
            };
            let source = if as_str && faults == 0 { Source::Str } else { draw_source(&mut rng, input.len(), false, faults) };
            let (ops, drain) = draw_ops(&mut rng, 6, false);
            let then_drain = drain.or(Some(Op::NextValue));
            let case = HistCase { opts: opts_ix, source, workload: Workload::Any { input }, ops, then_drain };
            if i < 3 {
                mon.samples_push(|| serde_json::json!({"run": i, "engine": "E-HIST", "workload": "robustness", "case": case}));
            }
            // the single-shot entry points (value and datum) on the same bytes and source
            if let Workload::Any { input } = &case.workload {
                let api = if rng.coin() { crate::stream::Api::Value } else { crate::stream::Api::Datum };
                let plan = match &case.source {
                    Source::Stream(p) => p.clone(),
                    _ => ReadPlan::benign(),
                };
                let sc = crate::stream::StreamCase { opts: opts_ix, api, input: input.clone(), plan };
                mon.before_case(|| serde_json::to_string(&AnyCase::Stream(sc.clone())).unwrap_or_default());
                let before = mon.violations.len();
                let mut refs = crate::stream::Refs::new();
                crate::stream::check_str_vs_slice(&sc, &mut refs, mon);
                crate::stream::check_stream_case(&sc, &mut refs, mon);
                mon.count("c03.single_shot_runs");
                for v in mon.violations[before..].to_vec() {
                    found.push(Found { violation: v, case: AnyCase::Stream(sc.clone()) });
                }
            }
            run_and_collect(case, mon, found);
        }
        80..=91 => {
            // pathological nesting
            let big = match tier {
                Tier::Quick => rng.chance(1, 40),
                Tier::Thorough => rng.chance(1, 10),
            };
            let count = match rng.below(10) {
                0..=2 => rng.urange(1, 100),
                3..=4 => rng.urange(101, 128),
                5..=7 => rng.urange(129, 2000),
                _ => {
                    if big {
                        rng.urange(100_000, 1_000_000)
                    } else {
                        rng.urange(2000, 50_000)
                    }
                }
            };
            let closed = rng.chance(2, 3);
            let shape = if rng.chance(2, 3) {
                PathShape::Nest { opener: (*rng.pick(text::OPENERS)).to_string(), count, closed }
            } else {
                let n = rng.urange(2, 4);
                PathShape::Mixed { openers: (0..n).map(|_| (*rng.pick(text::OPENERS)).to_string()).collect(), count, closed }
            };
            let opts_ix = opts::draw_parse(&mut rng);
            let len = text::build_path(&shape).len();
            let source = if count > 5000 {
                match rng.below(3) {
                    0 => Source::Slice,
                    1 => Source::Str,
                    _ => Source::Stream(ReadPlan::benign()),
                }
            } else {
                {
                    let nf = if rng.chance(1, 5) { 1 } else { 0 };
                    draw_source(&mut rng, len, true, nf)
                }
            };
            let op = *rng.pick(&[Op::NextValue, Op::NextDatum, Op::ExpectValue, Op::ExpectDatum, Op::ValueIterNext]);
            let case = HistCase { opts: opts_ix, source, workload: Workload::Deep { shape }, ops: vec![op], then_drain: None };
            run_and_collect(case, mon, found);
        }
        _ => {
            // error storms then a 100-level probe
            let (blobs, big) = draw_storm(&mut rng);
            let opts_ix = if rng.chance(2, 3) { opts::PARSE_DEFAULT } else { opts::draw_parse(&mut rng) };
            let probe_depth = if rng.chance(3, 4) { 100 } else { rng.urange(90, 100) };
            let len = storm_text(&blobs, probe_depth).0.len();
            let mut source = match rng.below(3) {
                0 if !big => Source::Slice,
                1 if !big => Source::Str,
                _ if big => Source::Stream(engine::draw_read_plan(&mut rng, len)),
                _ => draw_source(&mut rng, len, true, 0),
            };
            if rng.chance(1, 3) {
                // one to three transient read errors somewhere in the storm
                let mut plan = match source {
                    Source::Stream(p) => p,
                    _ => engine::draw_read_plan(&mut rng, len),
                };
                // strictly inside the storm: the sentinels and probes must be read undisturbed
                let text = storm_text(&blobs, probe_depth).0;
                let storm_len = text.windows(SENTINEL.len()).position(|w| w == SENTINEL.as_bytes()).unwrap_or(1).saturating_sub(2).max(1);
                for n in 0..rng.urange(1, 3) {
                    plan.faults.push(ReadFault {
                        at: rng.usize_below(storm_len),
                        kind: ReadFaultKind::Hard(*rng.pick(&[Kind::WouldBlock, Kind::TimedOut, Kind::Other, Kind::ConnectionReset])),
                        sticky: false,
                        id: 600 + n as u64,
                        payload: payload_for(rng.usize_below(8)),
                    });
                }
                source = Source::Stream(plan);
            }
            let drain = *rng.pick(&VALUE_OPS);
            let case = HistCase { opts: opts_ix, source, workload: Workload::Storm { blobs, probe_depth }, ops: vec![], then_drain: Some(drain) };
            run_and_collect(case, mon, found);
        }
    }
    mon.count("scenarios");
}

pub fn c17_run(seed: u64, i: u64, _tier: Tier, mon: &mut Mon, found: &mut Vec<Found>) {
    let mut rng = Rng::new(run_seed(seed, TAG_C17, i));
    let family = rng.below(10);
    if family == 0 {
        // printer side
        let popts = opts::draw_print(&mut rng);
        let mask = ValMask::draw(&mut rng, opts::print_fields(popts).chr == 1);
        let v = val::gen_value(&mut rng, &mask, 3);
        let case = crate::sink::printer_side_case(popts, vec![v]);
        mon.before_case(|| serde_json::to_string(&AnyCase::Sink(case.clone())).unwrap_or_default());
        let before = mon.violations.len();
        crate::sink::check_sink_case(&case, mon);
        for v in mon.violations[before..].to_vec() {
            found.push(Found { violation: v, case: AnyCase::Sink(case.clone()) });
        }
        mon.count("scenarios");
        return;
    }
    let opts_ix = if rng.chance(1, 2) { rng.below(u64::from(opts::N_PARSE)) as u32 } else { opts::draw_parse(&mut rng) };
    let f = opts::parse_fields(opts_ix);
    let as_str = rng.chance(1, 3);
    let mut input = match rng.below(10) {
        0..=6 => text::gen_utf8_text(&mut rng, f, as_str),
        7..=8 => {
            let base = text::gen_utf8_text(&mut rng, f, false);
            let m = text::mutate(&mut rng, &base);
            if as_str {
                text::repair_utf8(&m).into_bytes()
            } else {
                m
            }
        }
        _ => {
            let mut o = opts_ix;
            let (t, _) = engine::draw_text(&mut rng, &mut o, 1024);
            if as_str {
                text::repair_utf8(&t).into_bytes()
            } else {
                t
            }
        }
    };
    input.truncate(4096);
    let source = if as_str {
        Source::Str
    } else if rng.chance(1, 3) {
        Source::Slice
    } else {
        let mut plan = engine::draw_read_plan(&mut rng, input.len());
        // faults aimed inside multi-byte sequences
        let inside = text::offsets_inside_multibyte(&input);
        let nf = rng.below(3);
        for n in 0..nf {
            let at = if !inside.is_empty() && rng.chance(3, 4) { *rng.pick(&inside) } else { rng.usize_below(input.len() + 1) };
            let kind = if rng.chance(1, 3) { ReadFaultKind::Eof } else { ReadFaultKind::Hard(*rng.pick(&[Kind::WouldBlock, Kind::TimedOut, Kind::ConnectionReset])) };
            plan.faults.push(ReadFault { at, kind, sticky: rng.chance(1, 5), id: 400 + n, payload: payload_for(rng.usize_below(8)) });
        }
        if !inside.is_empty() && rng.chance(1, 2) {
            // chunk boundary inside a sequence
            plan.chunks = vec![1];
        }
        Source::Stream(plan)
    };
    let (ops, drain) = draw_ops(&mut rng, 5, false);
    let case = HistCase { opts: opts_ix, source, workload: Workload::Any { input }, ops, then_drain: drain.or(Some(Op::NextValue)) };
    if i < 3 {
        mon.samples_push(|| serde_json::json!({"run": i, "engine": "E-HIST", "workload": "W-utf8", "case": case}));
    }
    run_and_collect(case, mon, found);
    mon.count("scenarios");
}



/// C06's share of E-HIST: a mixed-operation history on a benign stream, compared
/// with the same history on the slice reader.
pub fn c06_history_run(rng: &mut Rng, mon: &mut Mon, found: &mut Vec<Found>) {
    let mut opts_ix = opts::draw_parse(rng);
    let (input, _) = engine::draw_text(rng, &mut opts_ix, 1024);
    let plan = engine::draw_read_plan(rng, input.len());
    let (ops, drain) = draw_ops(rng, 5, false);
    let case = HistCase { opts: opts_ix, source: Source::Stream(plan), workload: Workload::Any { input }, ops, then_drain: drain.or(Some(Op::NextValue)) };
    run_and_collect(case, mon, found);
}
