//! G-VAL: serialisable value trees and their generator.

use crate::prng::Rng;
use lexpr::{Number, Value};
use serde::{Deserialize, Serialize};

#[derive(Debug, Clone, PartialEq, Serialize, Deserialize)]
pub enum V {
    Nil,
    Null,
    Bool(bool),
    U(u64),
    I(i64),
    /// f64 by bit pattern, so replay files are exact.
    F(u64),
    Char(u32),
    Str(String),
    Sym(String),
    Kw(String),
    Bytes(Vec<u8>),
    /// Proper or dotted list: elements (non-empty) and an optional atom tail.
    List(Vec<V>, Option<Box<V>>),
    Vector(Vec<V>),
}

impl V {
    pub fn to_value(&self) -> Value {
        match self {
            V::Nil => Value::Nil,
            V::Null => Value::Null,
            V::Bool(b) => Value::Bool(*b),
            V::U(n) => Value::Number(Number::from(*n)),
            V::I(n) => Value::Number(Number::from(*n)),
            V::F(bits) => Value::Number(Number::from(f64::from_bits(*bits))),
            V::Char(c) => Value::Char(char::from_u32(*c).unwrap_or('?')),
            V::Str(s) => Value::string(s.as_str()),
            V::Sym(s) => Value::symbol(s.as_str()),
            V::Kw(s) => Value::keyword(s.as_str()),
            V::Bytes(b) => Value::bytes(b.clone()),
            V::List(items, tail) => {
                let items: Vec<Value> = items.iter().map(V::to_value).collect();
                match tail {
                    None => Value::list(items),
                    Some(t) => Value::append(items, t.to_value()),
                }
            }
            V::Vector(items) => Value::vector(items.iter().map(V::to_value)),
        }
    }

    /// Structurally smaller variants, for the shrinker.
    pub fn shrinks(&self) -> Vec<V> {
        let mut out = Vec::new();
        match self {
            V::Nil | V::Null => {}
            V::Bool(true) => out.push(V::Bool(false)),
            V::Bool(false) => out.push(V::Null),
            V::U(n) => {
                if *n > 9 {
                    out.push(V::U(n / 10));
                    out.push(V::U(10));
                }
                if *n != 0 {
                    out.push(V::U(0));
                }
            }
            V::I(n) => {
                out.push(V::U(n.unsigned_abs()));
                if *n < -9 {
                    out.push(V::I(n / 10));
                    out.push(V::I(-1));
                }
            }
            V::F(bits) => {
                let f = f64::from_bits(*bits);
                if f != 1.5 {
                    out.push(V::F(1.5f64.to_bits()));
                }
                out.push(V::U(0));
            }
            V::Char(c) => {
                if *c != u32::from(b'a') {
                    out.push(V::Char(u32::from(b'a')));
                }
                out.push(V::U(0));
            }
            V::Str(s) => {
                shrink_string(s, &mut out, V::Str);
                out.push(V::U(0));
            }
            V::Sym(s) => {
                shrink_name(s, &mut out, V::Sym);
                out.push(V::U(0));
            }
            V::Kw(s) => {
                shrink_name(s, &mut out, V::Kw);
                out.push(V::Sym(s.clone()));
            }
            V::Bytes(b) => {
                if !b.is_empty() {
                    out.push(V::Bytes(b[..b.len() / 2].to_vec()));
                    out.push(V::Bytes(b[1..].to_vec()));
                    if b.iter().any(|x| *x != 7) {
                        out.push(V::Bytes(vec![7; b.len()]));
                    }
                }
                out.push(V::U(0));
            }
            V::List(items, tail) => {
                for it in items {
                    out.push(it.clone());
                }
                if let Some(t) = tail {
                    out.push((**t).clone());
                    out.push(V::List(items.clone(), None));
                }
                if items.len() > 1 {
                    for i in 0..items.len() {
                        let mut v = items.clone();
                        v.remove(i);
                        out.push(V::List(v, tail.clone()));
                    }
                }
                for i in 0..items.len() {
                    for s in items[i].shrinks() {
                        let mut v = items.clone();
                        v[i] = s;
                        out.push(V::List(v, tail.clone()));
                    }
                }
                if let Some(t) = tail {
                    for s in t.shrinks() {
                        if !matches!(s, V::Null | V::List(..)) {
                            out.push(V::List(items.clone(), Some(Box::new(s))));
                        }
                    }
                }
            }
            V::Vector(items) => {
                for it in items {
                    out.push(it.clone());
                }
                for i in 0..items.len() {
                    let mut v = items.clone();
                    v.remove(i);
                    out.push(V::Vector(v));
                }
                for i in 0..items.len() {
                    for s in items[i].shrinks() {
                        let mut v = items.clone();
                        v[i] = s;
                        out.push(V::Vector(v));
                    }
                }
            }
        }
        out
    }
}

fn shrink_string(s: &str, out: &mut Vec<V>, mk: fn(String) -> V) {
    let chars: Vec<char> = s.chars().collect();
    if chars.is_empty() {
        return;
    }
    out.push(mk(String::new()));
    if chars.len() > 1 {
        out.push(mk(chars[..chars.len() / 2].iter().collect()));
        out.push(mk(chars[chars.len() / 2..].iter().collect()));
        for i in 0..chars.len().min(16) {
            let mut c = chars.clone();
            c.remove(i);
            out.push(mk(c.into_iter().collect()));
        }
    }
    if chars.iter().any(|c| *c != 'a') {
        for i in 0..chars.len().min(16) {
            if chars[i] != 'a' {
                let mut c = chars.clone();
                c[i] = 'a';
                out.push(mk(c.into_iter().collect()));
            }
        }
    }
}

fn shrink_name(s: &str, out: &mut Vec<V>, mk: fn(String) -> V) {
    let chars: Vec<char> = s.chars().collect();
    if chars.len() > 1 {
        out.push(mk(chars[..chars.len() / 2].iter().collect()));
        out.push(mk(chars[chars.len() / 2..].iter().collect()));
        for i in 0..chars.len().min(16) {
            let mut c = chars.clone();
            c.remove(i);
            out.push(mk(c.into_iter().collect()));
        }
    }
    if s != "a" {
        out.push(mk("a".to_string()));
    }
}

/// Which value kinds a run may draw (swarm mask).
#[derive(Debug, Clone, Copy)]
pub struct ValMask {
    pub bits: u32,
    pub elisp_names: bool,
    pub long_tokens: bool,
}

impl ValMask {
    pub fn draw(rng: &mut Rng, elisp_names: bool) -> ValMask {
        // each kind is on with probability 3/4; at least symbols or ints stay on
        let mut bits = 0u32;
        for k in 0..12 {
            if rng.chance(3, 4) {
                bits |= 1 << k;
            }
        }
        if bits & ((1 << 3) | (1 << 8) | (1 << 11)) == 0 {
            bits |= 1 << 3;
        }
        ValMask { bits, elisp_names, long_tokens: rng.chance(1, 12) }
    }
    fn on(&self, k: u32) -> bool {
        self.bits & (1 << k) != 0
    }
}

const INITIALS: &[u8] = b"abcdefghijklmnopqrstuvwxyzABCDEFGHIJKLMNOPQRSTUVWXYZ!$%&*/<=>^_~";
const SUBSEQ: &[u8] =
    b"abcdefghijklmnopqrstuvwxyzABCDEFGHIJKLMNOPQRSTUVWXYZ!$%&*/<=>^_~0123456789+-.@?";
const UNI_INITIALS: &[char] = &['λ', 'é', 'ß', 'Ж', '名', 'ñ', 'Ω', '𝒳'];
const PECULIAR: &[&str] = &["+", "-", "...", "->x", "-", "+", "--", "-a", "+a", "..", ".a", "-.", "+.x", "<=?", "a.b"];

pub fn gen_name(rng: &mut Rng, mask: &ValMask) -> String {
    let r = rng.below(100);
    if r < 8 {
        return (*rng.pick(PECULIAR)).to_string();
    }
    let mut s = String::new();
    if r < 22 {
        s.push(*rng.pick(UNI_INITIALS));
    } else {
        let c = *rng.pick(INITIALS) as char;
        s.push(c);
    }
    let len = if mask.long_tokens && rng.chance(1, 2) {
        rng.urange(120, 300)
    } else {
        rng.small(12)
    };
    for _ in 0..len {
        if rng.chance(1, 10) {
            s.push(*rng.pick(UNI_INITIALS));
        } else {
            s.push(*rng.pick(SUBSEQ) as char);
        }
    }
    if mask.elisp_names && s.starts_with('?') {
        s.replace_range(0..1, "q");
    }
    if s == "nil" || s == "t" {
        s.push('x');
    }
    s
}

pub fn gen_char(rng: &mut Rng) -> u32 {
    let c = match rng.below(10) {
        0..=3 => rng.range(0x21, 0x7E) as u32,
        4 => rng.range(0, 0x20) as u32,
        5 => 0x7F,
        6 => rng.range(0x80, 0xFF) as u32,
        7 => rng.range(0x100, 0xD7FF) as u32,
        8 => rng.range(0xE000, 0xFFFF) as u32,
        _ => rng.range(0x1_0000, 0x10_FFFF) as u32,
    };
    if char::from_u32(c).is_some() {
        c
    } else {
        0x41
    }
}

pub fn gen_string(rng: &mut Rng, mask: &ValMask) -> String {
    let len = if mask.long_tokens && rng.chance(1, 2) {
        rng.urange(120, 300)
    } else {
        rng.small(40)
    };
    let mut s = String::new();
    for _ in 0..len {
        let c = match rng.below(16) {
            0 => '"',
            1 => '\\',
            2 => char::from_u32(rng.range(0, 0x1F) as u32).unwrap(),
            3 => '\x7F',
            4 => ' ',
            5 => ';',
            6 | 7 => char::from_u32(gen_char(rng)).unwrap(),
            8 => *rng.pick(UNI_INITIALS),
            9 => crate::text::LINE_LIKE[rng.usize_below(crate::text::LINE_LIKE.len())].chars().next().unwrap(),
            _ => rng.range(0x21, 0x7E) as u8 as char,
        };
        s.push(c);
    }
    s
}

const INT_EDGES: &[u64] = &[
    0,
    1,
    9,
    10,
    255,
    256,
    65535,
    4294967295,
    4294967296,
    9223372036854775807,
    9223372036854775808,
    18446744073709551615,
    1234567890123456789,
    999999999999,
];

pub fn gen_float(rng: &mut Rng) -> f64 {
    let f = match rng.below(10) {
        0 => 0.5,
        1 => -0.0,
        2 => 1.5,
        3 => (rng.below(100000) as f64) / 64.0,
        4 => -(rng.below(1000) as f64) / 8.0,
        5 => 1.0e-7 * (rng.below(1000) as f64 + 0.5),
        6 => 2.5e10 * (rng.below(1000) as f64 + 0.25),
        7 => 5e-324,
        8 => 1.7976931348623157e308,
        _ => f64::from_bits(rng.next_u64()),
    };
    if f.is_finite() {
        f
    } else {
        0.25
    }
}

pub fn gen_atom(rng: &mut Rng, mask: &ValMask) -> V {
    loop {
        let k = rng.below(12) as u32;
        if !mask.on(k) {
            continue;
        }
        return match k {
            0 => V::Nil,
            1 => V::Null,
            2 => V::Bool(rng.coin()),
            3 => {
                if rng.chance(1, 3) {
                    V::U(*rng.pick(INT_EDGES))
                } else {
                    let digits = rng.urange(1, 19);
                    let mut n: u64 = 0;
                    for _ in 0..digits {
                        n = n.wrapping_mul(10).wrapping_add(rng.below(10));
                    }
                    V::U(n)
                }
            }
            4 => {
                let n = match rng.below(4) {
                    0 => i64::MIN,
                    1 => -1,
                    2 => -(rng.below(1000) as i64) - 1,
                    _ => -((rng.next_u64() >> rng.below(63)) as i64).abs() - 1,
                };
                V::I(n.min(-1))
            }
            5 => V::F(gen_float(rng).to_bits()),
            6 => V::Char(gen_char(rng)),
            7 => V::Str(gen_string(rng, mask)),
            8 | 11 => V::Sym(gen_name(rng, mask)),
            9 => V::Kw(gen_name(rng, mask)),
            _ => {
                let len = if mask.long_tokens { rng.urange(40, 120) } else { rng.small(20) };
                V::Bytes((0..len).map(|_| rng.byte()).collect())
            }
        };
    }
}

pub fn gen_value(rng: &mut Rng, mask: &ValMask, depth: u32) -> V {
    if depth == 0 || rng.chance(3, 5) {
        return gen_atom(rng, mask);
    }
    let n = rng.small(6);
    let mut items: Vec<V> = (0..n).map(|_| gen_value(rng, mask, depth - 1)).collect();
    match rng.below(5) {
        0 | 1 => {
            if items.is_empty() {
                V::Null
            } else {
                V::List(items, None)
            }
        }
        2 => {
            if items.is_empty() {
                items.push(gen_atom(rng, mask));
            }
            // tail: an atom other than Null (a list tail would merge)
            let tail = loop {
                let t = gen_atom(rng, mask);
                if !matches!(t, V::Null) {
                    break t;
                }
            };
            V::List(items, Some(Box::new(tail)))
        }
        _ => V::Vector(items),
    }
}
