//! Greedy structural minimisation: a candidate is accepted only if the same
//! oracle clause with the same signature still fails.

/// Repeatedly try the candidates of the current case; accept the first that
/// still fails and restart. `budget` caps the number of executions.
pub fn shrink<C: Clone>(
    start: C,
    candidates: impl Fn(&C) -> Vec<C>,
    mut still_fails: impl FnMut(&C) -> bool,
    key: impl Fn(&C) -> String,
    mut budget: usize,
) -> (C, usize) {
    let mut cur = start;
    let mut execs = 0;
    // every case ever tried: candidate relations need not be well-founded
    let mut tried: std::collections::BTreeSet<u64> = std::collections::BTreeSet::new();
    tried.insert(crate::prng::fnv(key(&cur).as_bytes()));
    'outer: loop {
        for cand in candidates(&cur) {
            if budget == 0 {
                break 'outer;
            }
            if !tried.insert(crate::prng::fnv(key(&cand).as_bytes())) {
                continue;
            }
            budget -= 1;
            execs += 1;
            if still_fails(&cand) {
                cur = cand;
                continue 'outer;
            }
        }
        break;
    }
    (cur, execs)
}

/// Byte-string reductions: drop aligned blocks of decreasing size, then
/// simplify single bytes. Each result comes with the removed range so that
/// offsets into the bytes can be shifted.
pub fn byte_removals(len: usize) -> Vec<(usize, usize)> {
    let mut out = Vec::new();
    let mut size = len;
    while size >= 1 {
        let mut start = 0;
        while start < len {
            let end = (start + size).min(len);
            if end > start && !(start == 0 && end == len && len == 0) {
                out.push((start, end));
            }
            start += size;
        }
        if size == 1 {
            break;
        }
        size = (size + 1) / 2;
        if out.len() > 600 {
            break;
        }
    }
    out
}

pub fn remove_range(b: &[u8], start: usize, end: usize) -> Vec<u8> {
    let mut v = Vec::with_capacity(b.len() - (end - start));
    v.extend_from_slice(&b[..start]);
    v.extend_from_slice(&b[end..]);
    v
}

/// Shift an offset after `start..end` was removed.
pub fn shift_offset(at: usize, start: usize, end: usize) -> usize {
    if at >= end {
        at - (end - start)
    } else if at > start {
        start
    } else {
        at
    }
}
